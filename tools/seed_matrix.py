#!/usr/bin/env python3
"""Replay every kept seeded change (seeded/<id>/patch.diff) against every registered check, on scratch copies of /repo
(/repo itself is never modified), and rewrite seeded/matrix.json, the `detected_by` field of each meta.json and the table
in seeded/README.md.   Usage: python3 tools/seed_matrix.py [-j N] [ids...]"""
import sys, os, json, glob, subprocess, shutil
ROOT = os.path.dirname(os.path.dirname(os.path.abspath(__file__)))
sys.path.insert(0, ROOT)
from rules import selftest
from concurrent.futures import ProcessPoolExecutor

PROPS = ["C%02d" % i for i in range(1, 21)]


def one(sid):
    patch = os.path.join(ROOT, "seeded", sid, "patch.diff")
    root = selftest.scratch_copy()
    res = {}
    try:
        r = subprocess.run(["git", "apply", "--unsafe-paths", "--directory", root, patch], cwd=root, stdout=subprocess.PIPE, stderr=subprocess.STDOUT)
        if r.returncode != 0:
            r = subprocess.run(["patch", "-p1", "-d", root, "-i", patch], stdout=subprocess.PIPE, stderr=subprocess.STDOUT)
            if r.returncode != 0:
                return sid, {"error": r.stdout.decode()[-200:]}
        fb = selftest.load_facts(root)
        for p in PROPS:
            try:
                res[p] = [v.key for v in selftest.run_on(root, p, fb)]
            except Exception as e:
                res[p] = ["ERROR:" + repr(e)[:120]]
    finally:
        shutil.rmtree(root, ignore_errors=True)
    return sid, res


def main():
    args = sys.argv[1:]
    j = 8
    if "-j" in args:
        i = args.index("-j")
        j = int(args[i + 1])
        del args[i:i + 2]
    ids = args or sorted(os.path.basename(os.path.dirname(p)) for p in glob.glob(os.path.join(ROOT, "seeded", "*", "patch.diff")))
    mpath = os.path.join(ROOT, "seeded", "matrix.json")
    matrix = json.load(open(mpath)) if os.path.exists(mpath) else {}
    bad = 0
    with ProcessPoolExecutor(max_workers=j) as ex:
        for sid, res in ex.map(one, ids):
            matrix[sid] = res
            meta_p = os.path.join(ROOT, "seeded", sid, "meta.json")
            meta = json.load(open(meta_p))
            hit = {p: ks for p, ks in res.items() if ks and p != "error"}
            meta["detected_by"] = hit
            json.dump(meta, open(meta_p, "w"), indent=1)
            own = meta["property"]
            status = "own-check" if hit.get(own) else ("other-check-only" if hit else "MISSED-BY-ALL")
            if status != "own-check":
                bad += 1
            print("%-10s %-18s %s" % (sid, status, sorted(hit)), flush=True)
    json.dump(matrix, open(mpath, "w"), indent=1, sort_keys=True)
    # README table
    rd = os.path.join(ROOT, "seeded", "README.md")
    head = open(rd).read().split("| seed |")[0]
    lines = ["| seed | breaks | caught by (checks) | keys reported by the property's own check |", "|---|---|---|---|"]
    for sid in sorted(matrix):
        mp = os.path.join(ROOT, "seeded", sid, "meta.json")
        if not os.path.exists(mp):
            continue
        meta = json.load(open(mp))
        hit = {p: ks for p, ks in matrix[sid].items() if ks and p != "error"}
        own = hit.get(meta["property"], [])
        lines.append("| %s | %s | %s | %s |" % (sid, meta["property"], " ".join(sorted(hit)), "; ".join(own[:2]) or "—"))
    open(rd, "w").write(head + "\n".join(lines) + "\n")
    print("seeds not caught by their own property's check: %d" % bad)
    return 1 if bad else 0


if __name__ == "__main__":
    sys.exit(main())
