#!/usr/bin/env python3
"""Regenerates rules/path_reference.json from the facts of the PINNED tree: every ADT path of the chitchat crate with its
shape (kind, variant names, field names).  Used only by facts.canonicalise_paths to map a type or module that a refactoring
renamed or moved back to the name the rules use.  Usage: python3 tools/gen_path_reference.py <facts-dir>"""
import sys, os, json, glob
ROOT = os.path.dirname(os.path.dirname(os.path.abspath(__file__)))
sys.path.insert(0, ROOT)
from rules.core import paths


def shape(a):
    return [a.get("kind"), [[v["name"], [f["name"] for f in v["fields"]]] for v in a["variants"]]]


def main():
    d = None
    for p in glob.glob(os.path.join(sys.argv[1], "chitchat-rlib-*.json")):
        d = json.load(open(p))
    adts = {a["path"]: shape(a) for a in d["adts"]}
    out = {"note": "ADT paths and shapes of the pinned tree; used ONLY to recognise a renamed or moved type/module and map it back "
                   "to the path the rules name (facts.canonicalise_paths); never used to decide a property",
           "adts": adts,
           "fn_callees": {f["id"]: paths.fingerprint(d["fns"], f["id"]) for f in d["fns"]
                          if f["kind"] in ("fn", "method") and not f.get("parent") and paths._plain(f["id"])}}
    json.dump(out, open(os.path.join(ROOT, "rules", "path_reference.json"), "w"), indent=0, sort_keys=True)
    print("%d adts" % len(adts))


if __name__ == "__main__":
    main()
