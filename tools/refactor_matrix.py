#!/usr/bin/env python3
"""Replay every kept behaviour-preserving refactoring (refactors_ext/<id>/patch.diff, written by independent sub-agents, each
confirmed to compile and to pass the suite) against every registered check on scratch copies of /repo.  Every check must stay
SILENT on every one of them: any report is a false alarm of the checker.  Usage: python3 tools/refactor_matrix.py [-j N] [--dir D] [ids...]"""
import sys, os, json, glob, subprocess, shutil
ROOT = os.path.dirname(os.path.dirname(os.path.abspath(__file__)))
sys.path.insert(0, ROOT)
from rules import selftest
from concurrent.futures import ProcessPoolExecutor

PROPS = ["C%02d" % i for i in range(1, 21)]
DIR = os.path.join(ROOT, "refactors_ext")


def one(arg):
    d, sid = arg
    patch = os.path.join(d, sid, "patch.diff")
    root = selftest.scratch_copy()
    res = {}
    try:
        r = subprocess.run(["git", "apply", "--unsafe-paths", "--directory", root, patch], cwd=root, stdout=subprocess.PIPE, stderr=subprocess.STDOUT)
        if r.returncode != 0:
            r = subprocess.run(["patch", "-p1", "-d", root, "-i", patch], stdout=subprocess.PIPE, stderr=subprocess.STDOUT)
            if r.returncode != 0:
                return sid, {"error": [r.stdout.decode()[-200:]]}
        try:
            fb = selftest.load_facts(root)
        except Exception as e:
            return sid, {"error": ["facts: " + repr(e)[:200]]}
        for p in PROPS:
            try:
                ks = [v.key for v in selftest.run_on(root, p, fb)]
            except Exception as e:
                ks = ["ERROR:" + repr(e)[:120]]
            if ks:
                res[p] = ks
    finally:
        shutil.rmtree(root, ignore_errors=True)
    return sid, res


def main():
    args = sys.argv[1:]
    j, d = 8, DIR
    if "-j" in args:
        i = args.index("-j"); j = int(args[i + 1]); del args[i:i + 2]
    if "--dir" in args:
        i = args.index("--dir"); d = args[i + 1]; del args[i:i + 2]
    ids = args or sorted(os.path.basename(os.path.dirname(p)) for p in glob.glob(os.path.join(d, "*", "patch.diff")))
    bad = 0
    out = {}
    with ProcessPoolExecutor(max_workers=j) as ex:
        for sid, res in ex.map(one, [(d, s) for s in ids]):
            out[sid] = res
            known = None
            mp = os.path.join(d, sid, "meta.json")
            if os.path.exists(mp):
                known = json.load(open(mp)).get("known_false_alarm")
            if res and not known:
                bad += 1
            print("%-10s %s" % (sid, "silent" if not res else ("KNOWN-LIMITATION " if known else "ALARM ") + json.dumps({p: ks[:2] for p, ks in res.items()})[:400]), flush=True)
    if d == DIR:
        json.dump(out, open(os.path.join(DIR, "matrix.json"), "w"), indent=1, sort_keys=True)
    print("refactorings with an unexpected alarm: %d of %d (entries marked known_false_alarm in their meta.json are documented limitations)" % (bad, len(ids)))
    return 1 if bad else 0


if __name__ == "__main__":
    sys.exit(main())
