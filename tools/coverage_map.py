#!/usr/bin/env python3
"""Which function bodies of the chitchat crate does the symbolic engine walk, per property, and which are never walked
(they are covered only by inventories / call-graph rules, or not at all).  Usage: python3 tools/coverage_map.py [facts-dir]"""
import sys, os, json, importlib
sys.path.insert(0, os.path.dirname(os.path.dirname(os.path.abspath(__file__))))
from rules.core import facts, report, sym, runfacts


class Ctx:
    pass


def main():
    if len(sys.argv) > 1:
        fdir = sys.argv[1]
    else:
        fdir = runfacts.run("/repo", "default", None)[0] if hasattr(runfacts, "run") else None
    allf = facts.load_dir(fdir)
    fx = allf[("chitchat", "rlib")]
    per = {}
    for n in range(1, 21):
        prop = "C%02d" % n
        mod = importlib.import_module("rules.props." + prop.lower())
        ctx = Ctx()
        ctx.all = allf
        ctx.fx = fx
        ctx.fx_testlib = allf.get(("chitchat_test", "rlib"))
        ctx.fx_bin = allf.get(("chitchat_test", "executable"))
        ctx.tier = "quick"
        ctx.cfgname = "default"
        ctx.report = report.Report(prop, "quick")
        sym.ANALYSED_BODIES.clear()
        mod.run(ctx)
        per[prop] = {fx.root_fn(f) for f in sym.ANALYSED_BODIES if f in fx.fns}
    walked = set().union(*per.values())
    roots = sorted({fx.root_fn(f) for f, d in fx.fns.items() if d["kind"] in ("fn", "method") and not d["span"].get("macros")})
    never = [f for f in roots if f not in walked]
    print("functions in crate: %d; walked by some property: %d; never walked: %d" % (len(roots), len(roots) - len(never), len(never)))
    for f in never:
        print("  never:", f)
    by = {}
    for p, fs in per.items():
        for f in fs:
            by.setdefault(f, []).append(p)
    if "--json" in sys.argv:
        json.dump({"walked": {f: sorted(ps) for f, ps in by.items()}, "never": never}, sys.stdout, indent=1)


if __name__ == "__main__":
    main()
