#!/bin/bash
# Offline setup: build the factgen driver and warm the dependency artefacts.
set -e
cd "$(dirname "$0")"
export CARGO_NET_OFFLINE=true
(cd factgen && cargo build --offline 2>&1 | tail -2)
python3 -B -c "
import sys; sys.path.insert(0,'.')
from rules.core import runfacts
print('dependency cache warmed in %.1fs' % runfacts.warm_cache())
"
