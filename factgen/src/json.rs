//! Minimal JSON value + writer (no dependencies available offline).
use std::fmt::Write;

#[derive(Clone, Debug)]
pub enum J {
    Null,
    Bool(bool),
    Int(i128),
    Str(String),
    Arr(Vec<J>),
    Obj(Vec<(String, J)>),
}

impl J {
    pub fn obj() -> J {
        J::Obj(Vec::new())
    }
    pub fn set(mut self, k: &str, v: J) -> J {
        if let J::Obj(ref mut items) = self {
            items.push((k.to_string(), v));
        }
        self
    }
    pub fn put(&mut self, k: &str, v: J) {
        if let J::Obj(items) = self {
            items.push((k.to_string(), v));
        }
    }
    pub fn s<T: ToString>(v: T) -> J {
        J::Str(v.to_string())
    }
    pub fn write(&self, out: &mut String) {
        match self {
            J::Null => out.push_str("null"),
            J::Bool(b) => out.push_str(if *b { "true" } else { "false" }),
            J::Int(i) => {
                let _ = write!(out, "{}", i);
            }
            J::Str(s) => write_str(s, out),
            J::Arr(items) => {
                out.push('[');
                for (i, it) in items.iter().enumerate() {
                    if i > 0 {
                        out.push(',');
                    }
                    it.write(out);
                }
                out.push(']');
            }
            J::Obj(items) => {
                out.push('{');
                for (i, (k, v)) in items.iter().enumerate() {
                    if i > 0 {
                        out.push(',');
                    }
                    write_str(k, out);
                    out.push(':');
                    v.write(out);
                }
                out.push('}');
            }
        }
    }
}

fn write_str(s: &str, out: &mut String) {
    out.push('"');
    for c in s.chars() {
        match c {
            '"' => out.push_str("\\\""),
            '\\' => out.push_str("\\\\"),
            '\n' => out.push_str("\\n"),
            '\r' => out.push_str("\\r"),
            '\t' => out.push_str("\\t"),
            c if (c as u32) < 0x20 => {
                let _ = write!(out, "\\u{:04x}", c as u32);
            }
            c => out.push(c),
        }
    }
    out.push('"');
}
