//! factgen — rustc driver that dumps resolved program facts (items, visibilities,
//! `mir_built` bodies with resolved callees, field names and macro provenance) as JSON.
//!
//! Used as RUSTC_WORKSPACE_WRAPPER: argv = [factgen, <rustc>, args...].
//! Output: $FACTGEN_OUT/<crate>-<kind>-<pid>.json, one write per process.
#![feature(rustc_private)]
#![allow(clippy::all)]

extern crate rustc_abi;
extern crate rustc_ast;
extern crate rustc_data_structures;
extern crate rustc_driver;
extern crate rustc_hir;
extern crate rustc_interface;
extern crate rustc_middle;
extern crate rustc_session;
extern crate rustc_span;

mod json;

use json::J;
use rustc_driver::Compilation;
use rustc_hir::def::DefKind;
use rustc_hir::def_id::{DefId, LocalDefId};
use rustc_middle::mir::{
    self, AggregateKind, BasicBlockData, Body, CastKind, Const, Operand, Place, PlaceElem, Rvalue,
    StatementKind, TerminatorKind, UnwindAction,
};
use rustc_middle::ty::print::{with_no_trimmed_paths, PrintTraitRefExt};
use rustc_middle::ty::{self, Instance, Ty, TyCtxt, TypingEnv};
use rustc_span::{ExpnKind, Span};

struct Callbacks;

impl rustc_driver::Callbacks for Callbacks {
    fn after_expansion<'tcx>(
        &mut self,
        _compiler: &rustc_interface::interface::Compiler,
        tcx: TyCtxt<'tcx>,
    ) -> Compilation {
        if let Ok(out_dir) = std::env::var("FACTGEN_OUT") {
            dump(tcx, &out_dir);
        }
        Compilation::Continue
    }
}

fn main() {
    let mut args: Vec<String> = std::env::args().collect();
    // workspace-wrapper protocol: argv[1] is the real rustc path.
    if args.len() > 1 && (args[1].ends_with("rustc") || args[1].contains("/rustc")) {
        args.remove(1);
    }
    let mut cb = Callbacks;
    rustc_driver::run_compiler(&args, &mut cb);
}

fn tystr<'tcx>(ty: Ty<'tcx>) -> String {
    with_no_trimmed_paths!(format!("{}", ty))
}

fn defpath(tcx: TyCtxt<'_>, did: DefId) -> String {
    with_no_trimmed_paths!(tcx.def_path_str(did))
}

fn span_json(tcx: TyCtxt<'_>, span: Span) -> J {
    let sm = tcx.sess.source_map();
    let mut macros = Vec::new();
    let mut from_exp = false;
    let mut desugar = Vec::new();
    for ed in span.macro_backtrace() {
        match ed.kind {
            ExpnKind::Macro(_, name) => {
                from_exp = true;
                macros.push(J::s(name));
            }
            _ => {}
        }
    }
    // desugarings (`?`, async, for loops) are not macros; record separately
    {
        let mut s = span;
        let mut guard = 0;
        while s.from_expansion() && guard < 32 {
            let ed = s.ctxt().outer_expn_data();
            if let ExpnKind::Desugaring(k) = ed.kind {
                desugar.push(J::s(format!("{:?}", k)));
            }
            s = ed.call_site;
            guard += 1;
        }
    }
    let call = span.source_callsite();
    let lo = sm.lookup_char_pos(call.lo());
    let hi = sm.lookup_char_pos(call.hi());
    let file = match &lo.file.name {
        rustc_span::FileName::Real(r) => match r.local_path() {
            Some(p) => p.display().to_string(),
            None => format!("{:?}", r),
        },
        other => format!("{:?}", other),
    };
    let mut j = J::obj()
        .set("file", J::s(file))
        .set("line", J::Int(lo.line as i128))
        .set("col", J::Int(lo.col.0 as i128))
        .set("eline", J::Int(hi.line as i128))
        .set("ecol", J::Int(hi.col.0 as i128));
    if from_exp {
        j.put("macros", J::Arr(macros));
    }
    if !desugar.is_empty() {
        j.put("desugar", J::Arr(desugar));
    }
    j
}

struct Cx<'a, 'tcx> {
    tcx: TyCtxt<'tcx>,
    body: &'a Body<'tcx>,
    def: LocalDefId,
    typing_env: TypingEnv<'tcx>,
}

fn variants_json<'tcx>(tcx: TyCtxt<'tcx>, ty: Ty<'tcx>) -> J {
    let mut out = Vec::new();
    if let ty::Adt(adt, _) = ty.kind() {
        if adt.is_enum() {
            for (vidx, discr) in adt.discriminants(tcx) {
                let v = adt.variant(vidx);
                out.push(J::Arr(vec![J::s(v.name), J::Int(discr.val as i128)]));
            }
        }
    }
    J::Arr(out)
}

impl<'a, 'tcx> Cx<'a, 'tcx> {
    fn place(&self, p: &Place<'tcx>) -> J {
        let tcx = self.tcx;
        let mut proj = Vec::new();
        let mut pty = mir::PlaceTy::from_ty(self.body.local_decls[p.local].ty);
        for elem in p.projection.iter() {
            let j = match elem {
                PlaceElem::Deref => J::obj().set("k", J::s("deref")),
                PlaceElem::Field(f, fty) => {
                    let mut j = J::obj()
                        .set("k", J::s("field"))
                        .set("idx", J::Int(f.as_usize() as i128));
                    match pty.ty.kind() {
                        ty::Adt(adt, _) => {
                            let vidx = pty.variant_index.unwrap_or(rustc_abi::FIRST_VARIANT);
                            let v = adt.variant(vidx);
                            if f.as_usize() < v.fields.len() {
                                j.put("name", J::s(v.fields[f].name));
                            }
                            j.put("adt", J::s(defpath(tcx, adt.did())));
                            if adt.is_enum() {
                                j.put("variant", J::s(v.name));
                            }
                        }
                        ty::Closure(did, _)
                        | ty::Coroutine(did, _)
                        | ty::CoroutineClosure(did, _) => {
                            if let Some(ldid) = did.as_local() {
                                let names = tcx.closure_saved_names_of_captured_variables(ldid);
                                if let Some(n) = names.get(f) {
                                    j.put("name", J::s(n));
                                }
                            }
                            j.put("adt", J::s("<closure>"));
                        }
                        ty::Tuple(_) => {
                            j.put("name", J::s(f.as_usize()));
                            j.put("adt", J::s("<tuple>"));
                        }
                        _ => {}
                    }
                    j.put("ty", J::s(tystr(fty)));
                    j
                }
                PlaceElem::Downcast(name, vidx) => {
                    let mut j = J::obj()
                        .set("k", J::s("downcast"))
                        .set("idx", J::Int(vidx.as_usize() as i128));
                    if let Some(n) = name {
                        j.put("variant", J::s(n));
                    } else if let ty::Adt(adt, _) = pty.ty.kind() {
                        j.put("variant", J::s(adt.variant(vidx).name));
                    }
                    if let ty::Adt(adt, _) = pty.ty.kind() {
                        j.put("adt", J::s(defpath(tcx, adt.did())));
                    }
                    j
                }
                PlaceElem::Index(l) => J::obj()
                    .set("k", J::s("index"))
                    .set("local", J::Int(l.as_usize() as i128)),
                PlaceElem::ConstantIndex {
                    offset,
                    min_length,
                    from_end,
                } => J::obj()
                    .set("k", J::s("constindex"))
                    .set("offset", J::Int(offset as i128))
                    .set("min_length", J::Int(min_length as i128))
                    .set("from_end", J::Bool(from_end)),
                PlaceElem::Subslice { from, to, from_end } => J::obj()
                    .set("k", J::s("subslice"))
                    .set("from", J::Int(from as i128))
                    .set("to", J::Int(to as i128))
                    .set("from_end", J::Bool(from_end)),
                PlaceElem::OpaqueCast(_) => J::obj().set("k", J::s("opaquecast")),
                PlaceElem::UnwrapUnsafeBinder(_) => J::obj().set("k", J::s("unwrapbinder")),
            };
            proj.push(j);
            pty = pty.projection_ty(tcx, elem);
        }
        J::obj()
            .set("local", J::Int(p.local.as_usize() as i128))
            .set("proj", J::Arr(proj))
            .set("ty", J::s(tystr(pty.ty)))
    }

    fn constant(&self, c: &mir::ConstOperand<'tcx>) -> J {
        let tcx = self.tcx;
        let ty = c.const_.ty();
        let mut j = J::obj().set("k", J::s("const")).set("ty", J::s(tystr(ty)));
        match ty.kind() {
            ty::FnDef(did, args) => {
                j.put("fn", self.callee(*did, args));
            }
            _ => {
                let mut done = false;
                if ty.is_integral() || ty.is_bool() || ty.is_char() {
                    if let Some(si) = c.const_.try_eval_scalar_int(tcx, self.typing_env) {
                        let size = si.size();
                        let v: i128 = if ty.is_signed() {
                            si.to_int(size)
                        } else {
                            si.to_uint(size) as i128
                        };
                        j.put("val", J::Int(v));
                        done = true;
                    }
                }
                if !done {
                    let s = with_no_trimmed_paths!(format!("{}", c.const_));
                    j.put("repr", J::s(s));
                    if let Const::Unevaluated(uv, _) = c.const_ {
                        j.put("unevaluated", J::s(defpath(tcx, uv.def)));
                    }
                }
            }
        }
        j
    }

    fn callee(&self, did: DefId, args: ty::GenericArgsRef<'tcx>) -> J {
        let tcx = self.tcx;
        let mut j = J::obj()
            .set("path", J::s(defpath(tcx, did)))
            .set("local", J::Bool(did.is_local()));
        let argstrs: Vec<J> = args.iter().map(|a| J::s(with_no_trimmed_paths!(format!("{}", a)))).collect();
        j.put("args", J::Arr(argstrs));
        if let Some(assoc) = tcx.opt_associated_item(did) {
            if let Some(tr) = assoc.trait_container(tcx) {
                j.put("trait", J::s(defpath(tcx, tr)));
            } else if let Some(imp) = assoc.impl_container(tcx) {
                let self_ty = tcx.type_of(imp).instantiate_identity();
                j.put("impl_self", J::s(tystr(self_ty.skip_norm_wip())));
            }
        }
        // try to resolve through trait dispatch
        let erased = tcx.erase_and_anonymize_regions(args);
        let resolved = std::panic::catch_unwind(std::panic::AssertUnwindSafe(|| {
            Instance::try_resolve(tcx, self.typing_env, did, erased)
        }));
        if let Ok(Ok(Some(inst))) = resolved {
            let rdid = inst.def_id();
            j.put("resolved", J::s(defpath(tcx, rdid)));
            j.put("resolved_local", J::Bool(rdid.is_local()));
            let kind = match inst.def {
                ty::InstanceKind::Item(_) => "item",
                ty::InstanceKind::Virtual(..) => "virtual",
                ty::InstanceKind::FnPtrShim(..) => "fnptrshim",
                ty::InstanceKind::ClosureOnceShim { .. } => "closureonce",
                ty::InstanceKind::Intrinsic(_) => "intrinsic",
                ty::InstanceKind::DropGlue(..) => "dropglue",
                ty::InstanceKind::CloneShim(..) => "cloneshim",
                _ => "other",
            };
            j.put("resolved_kind", J::s(kind));
            let rargs: Vec<J> = inst
                .args
                .iter()
                .map(|a| J::s(with_no_trimmed_paths!(format!("{}", a))))
                .collect();
            j.put("resolved_args", J::Arr(rargs));
        }
        j
    }

    fn operand(&self, o: &Operand<'tcx>) -> J {
        match o {
            Operand::Copy(p) => J::obj().set("k", J::s("copy")).set("place", self.place(p)),
            Operand::Move(p) => J::obj().set("k", J::s("move")).set("place", self.place(p)),
            Operand::Constant(c) => self.constant(c),
            #[allow(unreachable_patterns)]
            _ => J::obj().set("k", J::s("other")),
        }
    }

    fn rvalue(&self, rv: &Rvalue<'tcx>) -> J {
        let tcx = self.tcx;
        match rv {
            Rvalue::Use(o, ..) => J::obj().set("k", J::s("use")).set("op", self.operand(o)),
            Rvalue::Repeat(o, _) => J::obj().set("k", J::s("repeat")).set("op", self.operand(o)),
            Rvalue::Ref(_, bk, p) => J::obj()
                .set("k", J::s("ref"))
                .set(
                    "mut",
                    J::Bool(matches!(bk, mir::BorrowKind::Mut { .. })),
                )
                .set("place", self.place(p)),
            Rvalue::ThreadLocalRef(d) => J::obj()
                .set("k", J::s("tlref"))
                .set("def", J::s(defpath(tcx, *d))),
            Rvalue::RawPtr(_, p) => J::obj().set("k", J::s("rawptr")).set("place", self.place(p)),
            Rvalue::Cast(kind, o, ty) => {
                let ks = match kind {
                    CastKind::IntToInt => "IntToInt".to_string(),
                    CastKind::FloatToInt => "FloatToInt".to_string(),
                    CastKind::IntToFloat => "IntToFloat".to_string(),
                    CastKind::FloatToFloat => "FloatToFloat".to_string(),
                    CastKind::Transmute => "Transmute".to_string(),
                    other => format!("{:?}", other),
                };
                J::obj()
                    .set("k", J::s("cast"))
                    .set("cast", J::s(ks))
                    .set("op", self.operand(o))
                    .set("ty", J::s(tystr(*ty)))
            }
            Rvalue::BinaryOp(op, ab) => {
                let (a, b) = &**ab;
                J::obj()
                    .set("k", J::s("binop"))
                    .set("op", J::s(format!("{:?}", op)))
                    .set("a", self.operand(a))
                    .set("b", self.operand(b))
            }
            Rvalue::UnaryOp(op, a) => J::obj()
                .set("k", J::s("unop"))
                .set("op", J::s(format!("{:?}", op)))
                .set("a", self.operand(a)),
            Rvalue::Discriminant(p) => {
                let pty = p.ty(self.body, tcx).ty;
                J::obj()
                    .set("k", J::s("discriminant"))
                    .set("place", self.place(p))
                    .set("variants", variants_json(tcx, pty))
            }
            Rvalue::Aggregate(kind, ops) => {
                let mut j = J::obj().set("k", J::s("aggregate"));
                let mut names: Vec<J> = Vec::new();
                match &**kind {
                    AggregateKind::Array(_) => j.put("agg", J::s("array")),
                    AggregateKind::Tuple => j.put("agg", J::s("tuple")),
                    AggregateKind::Adt(did, vidx, _, _, active) => {
                        j.put("agg", J::s("adt"));
                        j.put("adt", J::s(defpath(tcx, *did)));
                        let adt = tcx.adt_def(*did);
                        let v = adt.variant(*vidx);
                        j.put("variant", J::s(v.name));
                        if let Some(a) = active {
                            names.push(J::s(v.fields[*a].name));
                        } else {
                            for f in v.fields.iter() {
                                names.push(J::s(f.name));
                            }
                        }
                    }
                    AggregateKind::Closure(did, _) => {
                        j.put("agg", J::s("closure"));
                        j.put("def", J::s(defpath(tcx, *did)));
                        if let Some(l) = did.as_local() {
                            for n in tcx.closure_saved_names_of_captured_variables(l).iter() {
                                names.push(J::s(n));
                            }
                        }
                    }
                    AggregateKind::Coroutine(did, _) => {
                        j.put("agg", J::s("coroutine"));
                        j.put("def", J::s(defpath(tcx, *did)));
                        if let Some(l) = did.as_local() {
                            for n in tcx.closure_saved_names_of_captured_variables(l).iter() {
                                names.push(J::s(n));
                            }
                        }
                    }
                    AggregateKind::CoroutineClosure(did, _) => {
                        j.put("agg", J::s("coroutineclosure"));
                        j.put("def", J::s(defpath(tcx, *did)));
                    }
                    AggregateKind::RawPtr(..) => j.put("agg", J::s("rawptr")),
                }
                j.put("fields", J::Arr(names));
                j.put(
                    "ops",
                    J::Arr(ops.iter().map(|o| self.operand(o)).collect()),
                );
                j
            }
            Rvalue::CopyForDeref(p) => J::obj()
                .set("k", J::s("use"))
                .set("op", J::obj().set("k", J::s("copy")).set("place", self.place(p))),
            Rvalue::WrapUnsafeBinder(o, _) => {
                J::obj().set("k", J::s("use")).set("op", self.operand(o))
            }
            #[allow(unreachable_patterns)]
            other => J::obj()
                .set("k", J::s("other"))
                .set("repr", J::s(format!("{:?}", other))),
        }
    }

    fn block(&self, bb: &BasicBlockData<'tcx>) -> J {
        let tcx = self.tcx;
        let mut stmts = Vec::new();
        for st in &bb.statements {
            let sp = st.source_info.span;
            match &st.kind {
                StatementKind::Assign(b) => {
                    let (p, rv) = &**b;
                    stmts.push(
                        J::obj()
                            .set("k", J::s("assign"))
                            .set("place", self.place(p))
                            .set("rv", self.rvalue(rv))
                            .set("span", span_json(tcx, sp)),
                    );
                }
                StatementKind::SetDiscriminant {
                    place,
                    variant_index,
                } => {
                    stmts.push(
                        J::obj()
                            .set("k", J::s("setdiscr"))
                            .set("place", self.place(place))
                            .set("idx", J::Int(variant_index.as_usize() as i128))
                            .set("span", span_json(tcx, sp)),
                    );
                }
                StatementKind::StorageDead(l) => {
                    stmts.push(
                        J::obj()
                            .set("k", J::s("storagedead"))
                            .set("local", J::Int(l.as_usize() as i128)),
                    );
                }
                StatementKind::StorageLive(l) => {
                    stmts.push(
                        J::obj()
                            .set("k", J::s("storagelive"))
                            .set("local", J::Int(l.as_usize() as i128)),
                    );
                }
                _ => {}
            }
        }
        let term = bb.terminator();
        let tsp = span_json(tcx, term.source_info.span);
        let unwind_s = |u: &UnwindAction| -> J {
            match u {
                UnwindAction::Cleanup(bb) => J::Int(bb.as_usize() as i128),
                _ => J::Null,
            }
        };
        let tj = match &term.kind {
            TerminatorKind::Goto { target } => J::obj()
                .set("k", J::s("goto"))
                .set("target", J::Int(target.as_usize() as i128)),
            TerminatorKind::SwitchInt { discr, targets } => {
                let mut ts = Vec::new();
                for (v, t) in targets.iter() {
                    ts.push(J::Arr(vec![J::Int(v as i128), J::Int(t.as_usize() as i128)]));
                }
                J::obj()
                    .set("k", J::s("switch"))
                    .set("discr", self.operand(discr))
                    .set("discr_ty", J::s(tystr(discr.ty(self.body, tcx))))
                    .set("targets", J::Arr(ts))
                    .set("otherwise", J::Int(targets.otherwise().as_usize() as i128))
            }
            TerminatorKind::Return => J::obj().set("k", J::s("return")),
            TerminatorKind::Unreachable => J::obj().set("k", J::s("unreachable")),
            TerminatorKind::UnwindResume => J::obj().set("k", J::s("resume")),
            TerminatorKind::UnwindTerminate(_) => J::obj().set("k", J::s("terminate")),
            TerminatorKind::Drop {
                place,
                target,
                unwind,
                ..
            } => J::obj()
                .set("k", J::s("drop"))
                .set("place", self.place(place))
                .set("target", J::Int(target.as_usize() as i128))
                .set("unwind", unwind_s(unwind)),
            TerminatorKind::Call {
                func,
                args,
                destination,
                target,
                unwind,
                fn_span,
                ..
            } => {
                let mut j = J::obj()
                    .set("k", J::s("call"))
                    .set("func", self.operand(func))
                    .set(
                        "args",
                        J::Arr(args.iter().map(|a| self.operand(&a.node)).collect()),
                    )
                    .set("dest", self.place(destination))
                    .set(
                        "target",
                        match target {
                            Some(t) => J::Int(t.as_usize() as i128),
                            None => J::Null,
                        },
                    )
                    .set("unwind", unwind_s(unwind))
                    .set("fn_span", span_json(tcx, *fn_span));
                let fty = func.ty(self.body, tcx);
                j.put("func_ty", J::s(tystr(fty)));
                j
            }
            TerminatorKind::TailCall { func, args, .. } => J::obj()
                .set("k", J::s("tailcall"))
                .set("func", self.operand(func))
                .set(
                    "args",
                    J::Arr(args.iter().map(|a| self.operand(&a.node)).collect()),
                ),
            TerminatorKind::Assert {
                cond,
                expected,
                msg,
                target,
                unwind,
            } => {
                let kind = match &**msg {
                    mir::AssertKind::BoundsCheck { .. } => "BoundsCheck".to_string(),
                    mir::AssertKind::Overflow(op, ..) => format!("Overflow({:?})", op),
                    mir::AssertKind::OverflowNeg(_) => "OverflowNeg".to_string(),
                    mir::AssertKind::DivisionByZero(_) => "DivisionByZero".to_string(),
                    mir::AssertKind::RemainderByZero(_) => "RemainderByZero".to_string(),
                    other => format!("{:?}", other).chars().take(40).collect(),
                };
                let mut j = J::obj()
                    .set("k", J::s("assert"))
                    .set("cond", self.operand(cond))
                    .set("expected", J::Bool(*expected))
                    .set("kind", J::s(kind))
                    .set("target", J::Int(target.as_usize() as i128))
                    .set("unwind", unwind_s(unwind));
                if let mir::AssertKind::BoundsCheck { len, index } = &**msg {
                    j.put("len", self.operand(len));
                    j.put("index", self.operand(index));
                }
                if let mir::AssertKind::Overflow(_, a, b) = &**msg {
                    j.put("a", self.operand(a));
                    j.put("b", self.operand(b));
                }
                j
            }
            TerminatorKind::Yield {
                value,
                resume,
                resume_arg,
                drop,
            } => J::obj()
                .set("k", J::s("yield"))
                .set("value", self.operand(value))
                .set("target", J::Int(resume.as_usize() as i128))
                .set("resume_arg", self.place(resume_arg))
                .set(
                    "drop",
                    match drop {
                        Some(d) => J::Int(d.as_usize() as i128),
                        None => J::Null,
                    },
                ),
            TerminatorKind::CoroutineDrop => J::obj().set("k", J::s("coroutinedrop")),
            TerminatorKind::FalseEdge {
                real_target,
                imaginary_target,
            } => J::obj()
                .set("k", J::s("falseedge"))
                .set("target", J::Int(real_target.as_usize() as i128))
                .set("imaginary", J::Int(imaginary_target.as_usize() as i128)),
            TerminatorKind::FalseUnwind { real_target, .. } => J::obj()
                .set("k", J::s("falseunwind"))
                .set("target", J::Int(real_target.as_usize() as i128)),
            TerminatorKind::InlineAsm { .. } => J::obj().set("k", J::s("inlineasm")),
        };
        J::obj()
            .set("stmts", J::Arr(stmts))
            .set("term", tj.set("span", tsp))
            .set("cleanup", J::Bool(bb.is_cleanup))
    }
}

fn vis_str(tcx: TyCtxt<'_>, did: DefId) -> String {
    match tcx.visibility(did) {
        ty::Visibility::Public => "pub".to_string(),
        ty::Visibility::Restricted(m) => {
            if m.is_crate_root() {
                "crate".to_string()
            } else {
                format!("in:{}", defpath(tcx, m))
            }
        }
    }
}

fn dump(tcx: TyCtxt<'_>, out_dir: &str) {
    let crate_name = tcx.crate_name(rustc_hir::def_id::LOCAL_CRATE).to_string();
    let crate_types: Vec<String> = tcx
        .crate_types()
        .iter()
        .map(|t| format!("{:?}", t).to_lowercase())
        .collect();
    let is_test = tcx.sess.opts.test;
    // Clone every `mir_built` body FIRST: later queries (effective visibilities, opaque
    // types, const evaluation) run borrowck on some bodies, which steals `mir_built`.
    // Building the MIR of one body can itself steal another body's `mir_built`: a `match` on a named const evaluates that
    // const, awaiting / calling a function that returns an opaque type (async fn, impl Trait) borrow-checks its definer and
    // the closures nested in it.  Bodies are cloned in HIR order (no steal happens on the pinned tree that way); a body that
    // is stolen all the same is taken from `mir_promoted` (the same MIR after constant promotion, still before borrowck and
    // drop elaboration); if that is gone too it is reported, and the checks fail closed instead of the driver crashing.
    let mut built: Vec<(LocalDefId, Body<'_>)> = Vec::new();
    let mut stolen: Vec<LocalDefId> = Vec::new();
    for ldid in tcx.hir_body_owners() {
        let kind = tcx.def_kind(ldid.to_def_id());
        if matches!(kind, DefKind::AnonConst | DefKind::InlineConst) {
            continue;
        }
        let steal = tcx.mir_built(ldid);
        if !steal.is_stolen() {
            let b = steal.borrow().clone();
            built.push((ldid, b));
            continue;
        }
        let (promoted, _) = tcx.mir_promoted(ldid);
        if !promoted.is_stolen() {
            let b = promoted.borrow().clone();
            built.push((ldid, b));
            continue;
        }
        if matches!(kind, DefKind::Const { .. } | DefKind::AssocConst { .. } | DefKind::Static { .. }) {
            // the body of a constant item that const evaluation already consumed: its value is in the MIR of its users
            continue;
        }
        stolen.push(ldid);
    }
    if !stolen.is_empty() {
        eprintln!("factgen: {} bodies were stolen before they could be exported: {:?}", stolen.len(), stolen);
    }
    let eff = tcx.effective_visibilities(());

    // ---------- ADTs
    let mut adts = Vec::new();
    let mut fns = Vec::new();
    let mut impls = Vec::new();
    let mut consts = Vec::new();
    let mut reexports = Vec::new();

    for ldid in tcx.hir_crate_items(()).definitions() {
        let did = ldid.to_def_id();
        let kind = tcx.def_kind(did);
        match kind {
            DefKind::Struct | DefKind::Enum | DefKind::Union => {
                let adt = tcx.adt_def(did);
                let mut variants = Vec::new();
                let discrs: Vec<i128> = if adt.is_enum() {
                    adt.discriminants(tcx).map(|(_, d)| d.val as i128).collect()
                } else {
                    vec![0]
                };
                for (i, v) in adt.variants().iter().enumerate() {
                    let mut fields = Vec::new();
                    for f in v.fields.iter() {
                        let fty = tcx.type_of(f.did).instantiate_identity().skip_norm_wip();
                        fields.push(
                            J::obj()
                                .set("name", J::s(f.name))
                                .set("ty", J::s(tystr(fty)))
                                .set("vis", J::s(vis_str(tcx, f.did)))
                                .set(
                                    "reachable",
                                    J::Bool(
                                        f.did
                                            .as_local()
                                            .map(|l| eff.is_reachable(l))
                                            .unwrap_or(false),
                                    ),
                                ),
                        );
                    }
                    variants.push(
                        J::obj()
                            .set("name", J::s(v.name))
                            .set("discr", J::Int(*discrs.get(i).unwrap_or(&0)))
                            .set("fields", J::Arr(fields)),
                    );
                }
                adts.push(
                    J::obj()
                        .set("path", J::s(defpath(tcx, did)))
                        .set("kind", J::s(format!("{:?}", kind)))
                        .set("vis", J::s(vis_str(tcx, did)))
                        .set("reachable", J::Bool(eff.is_reachable(ldid)))
                        .set("exported", J::Bool(eff.is_exported(ldid)))
                        .set("variants", J::Arr(variants))
                        .set("span", span_json(tcx, tcx.def_span(did))),
                );
            }
            DefKind::Impl { .. } => {
                let self_ty = tcx.type_of(did).instantiate_identity().skip_norm_wip();
                let tr = tcx
                    .impl_opt_trait_ref(did)
                    .map(|t| with_no_trimmed_paths!(format!("{}", t.instantiate_identity().skip_norm_wip().print_only_trait_path())));
                let items: Vec<J> = tcx
                    .associated_item_def_ids(did)
                    .iter()
                    .map(|d| J::s(defpath(tcx, *d)))
                    .collect();
                impls.push(
                    J::obj()
                        .set("self_ty", J::s(tystr(self_ty)))
                        .set(
                            "trait",
                            match tr {
                                Some(t) => J::s(t),
                                None => J::Null,
                            },
                        )
                        .set("items", J::Arr(items))
                        .set("span", span_json(tcx, tcx.def_span(did))),
                );
            }
            DefKind::Use => {
                // record `pub use` targets for API-surface rules
                let vis = vis_str(tcx, did);
                reexports.push(
                    J::obj()
                        .set("vis", J::s(vis))
                        .set("span", span_json(tcx, tcx.def_span(did))),
                );
            }
            _ => {}
        }
    }

    // ---------- bodies
    for (ldid, body_owned) in built.iter() {
        let ldid = *ldid;
        let did = ldid.to_def_id();
        let kind = tcx.def_kind(did);
        let kind_s = match kind {
            DefKind::Fn => "fn",
            DefKind::AssocFn => "method",
            DefKind::Closure => "closure",
            DefKind::Const { .. } | DefKind::AssocConst { .. } => "const",
            DefKind::Static { .. } => "static",
            DefKind::AnonConst | DefKind::InlineConst => "anonconst",
            _ => "other",
        };
        let mut j = J::obj()
            .set("id", J::s(defpath(tcx, did)))
            .set("kind", J::s(kind_s))
            .set("span", span_json(tcx, tcx.def_span(did)));
        // parent for closures
        if matches!(kind, DefKind::Closure) {
            let parent = tcx.parent(did);
            j.put("parent", J::s(defpath(tcx, parent)));
            let is_coroutine = tcx.is_coroutine(did);
            j.put("coroutine", J::Bool(is_coroutine));
        }
        if matches!(kind, DefKind::Fn | DefKind::AssocFn) {
            j.put("vis", J::s(vis_str(tcx, did)));
            j.put("reachable", J::Bool(eff.is_reachable(ldid)));
            j.put("exported", J::Bool(eff.is_exported(ldid)));
            j.put("is_async", J::Bool(tcx.asyncness(did).is_async()));
            let sig = tcx.fn_sig(did).instantiate_identity().skip_norm_wip().skip_binder();
            let inputs: Vec<J> = sig.inputs().iter().map(|t| J::s(tystr(*t))).collect();
            j.put("inputs", J::Arr(inputs));
            j.put("output", J::s(tystr(sig.output())));
            if let Some(assoc) = tcx.opt_associated_item(did) {
                if let Some(imp) = assoc.impl_container(tcx) {
                    let self_ty = tcx.type_of(imp).instantiate_identity().skip_norm_wip();
                    j.put("impl_self", J::s(tystr(self_ty)));
                    if let Some(tr) = tcx.impl_opt_trait_ref(imp) {
                        let s = with_no_trimmed_paths!(format!(
                            "{}",
                            tr.instantiate_identity().skip_norm_wip().print_only_trait_path()
                        ));
                        j.put("impl_trait", J::s(s));
                    }
                } else if let Some(tr) = assoc.trait_container(tcx) {
                    j.put("in_trait", J::s(defpath(tcx, tr)));
                }
            }
            let must_use = tcx
                .get_all_attrs(did)
                .iter()
                .any(|a| format!("{:?}", a).contains("MustUse"));
            j.put("must_use", J::Bool(must_use));
        }
        if matches!(kind, DefKind::Const { .. } | DefKind::AssocConst { .. } | DefKind::Static { .. }) {
            consts.push(J::s(defpath(tcx, did)));
        }
        if kind_s == "anonconst" || kind_s == "other" {
            continue;
        }
        // MIR
        let body: &Body<'_> = body_owned;
        let cx = Cx {
            tcx,
            body,
            def: ldid,
            typing_env: TypingEnv::post_analysis(tcx, did),
        };
        let _ = cx.def;
        let mut locals = Vec::new();
        for (l, decl) in body.local_decls.iter_enumerated() {
            let mut lj = J::obj()
                .set("i", J::Int(l.as_usize() as i128))
                .set("ty", J::s(tystr(decl.ty)))
                .set("user", J::Bool(decl.is_user_variable()));
            if l.as_usize() >= 1 && l.as_usize() <= body.arg_count {
                lj.put("arg", J::Int(l.as_usize() as i128));
            }
            locals.push(lj);
        }
        // names from debug info
        let mut dbg = Vec::new();
        for vdi in &body.var_debug_info {
            let mut dj = J::obj().set("name", J::s(vdi.name));
            match &vdi.value {
                mir::VarDebugInfoContents::Place(p) => dj.put("place", cx.place(p)),
                mir::VarDebugInfoContents::Const(_) => dj.put("const", J::Bool(true)),
            }
            if let Some(a) = vdi.argument_index {
                dj.put("arg", J::Int(a as i128));
            }
            dbg.push(dj);
        }
        let blocks: Vec<J> = body.basic_blocks.iter().map(|b| cx.block(b)).collect();
        j.put("arg_count", J::Int(body.arg_count as i128));
        j.put("locals", J::Arr(locals));
        j.put("debug", J::Arr(dbg));
        j.put("blocks", J::Arr(blocks));
        fns.push(j);
    }

    let root = J::obj()
        .set("crate", J::s(&crate_name))
        .set("crate_types", J::Arr(crate_types.iter().map(J::s).collect()))
        .set("is_test", J::Bool(is_test))
        .set("stolen_bodies", J::Arr(stolen.iter().map(|l| J::s(&defpath(tcx, l.to_def_id()))).collect()))
        .set(
            "cfg_features",
            J::Arr(
                tcx.sess
                    .config
                    .iter()
                    .filter_map(|(k, v)| {
                        if k.as_str() == "feature" {
                            v.map(|v| J::s(v))
                        } else {
                            None
                        }
                    })
                    .collect(),
            ),
        )
        .set("adts", J::Arr(adts))
        .set("impls", J::Arr(impls))
        .set("consts", J::Arr(consts))
        .set("reexports", J::Arr(reexports))
        .set("fns", J::Arr(fns));
    let mut s = String::new();
    root.write(&mut s);
    let kind = crate_types.first().cloned().unwrap_or_default();
    let path = format!(
        "{}/{}-{}-{}{}.json",
        out_dir,
        crate_name,
        kind,
        if is_test { "test-" } else { "" },
        std::process::id()
    );
    std::fs::write(&path, s).expect("factgen: cannot write facts");
}
