//! E3 — compile-fail witnesses (DESIGN §2.3): what an *external* crate can reach of chitchat.
//! Each `compile_fail,E0xxx` block is paired with a compiling twin that differs only in the
//! offending call, so that a witness cannot pass because of a typo or a wrong path.
//! Run with `cargo +nightly test --doc --offline` (error codes are only honoured on nightly).

/// C05/R05.1 — `Chitchat::process_message` is not callable from outside the crate.
/// ```compile_fail,E0624
/// fn f(c: &mut chitchat::Chitchat, m: chitchat::ChitchatMessage) { let _ = c.process_message(m); }
/// ```
/// twin (the public entry that hands out the node's own state compiles):
/// ```
/// fn f(c: &mut chitchat::Chitchat) { let _ = c.self_node_state(); }
/// ```
pub struct ProcessMessageIsPrivate;

/// C05/R05.1 — the cluster state (and through it foreign members' mutable copies) is not reachable.
/// ```compile_fail,E0624
/// fn f(c: &mut chitchat::Chitchat) { let _ = c.cluster_state(); }
/// ```
/// twin:
/// ```
/// fn f(c: &chitchat::Chitchat) { let _ = c.node_states(); }
/// ```
pub struct ClusterStateIsPrivate;

/// C05/R05.1 — there is no public accessor returning a mutable copy of an arbitrary member.
/// ```compile_fail,E0599
/// fn f(c: &mut chitchat::Chitchat, id: &chitchat::ChitchatId) { let _ = c.node_state_mut(id); }
/// ```
/// twin (the read-only accessor exists):
/// ```
/// fn f(c: &chitchat::Chitchat, id: &chitchat::ChitchatId) { let _ = c.node_state(id); }
/// ```
pub struct NoForeignMutableCopy;

/// C05/R05.1 — `ClusterState` is not nameable from outside.
/// ```compile_fail,E0603
/// fn f(_: &chitchat::state::ClusterState) {}
/// ```
/// twin:
/// ```
/// fn f(_: &chitchat::ClusterStateSnapshot) {}
/// ```
pub struct ClusterStateTypeIsPrivate;

/// C13/R13.1 — the watch sender of the live-members channel cannot be touched from outside.
/// ```compile_fail,E0616
/// fn f(c: &chitchat::Chitchat) { let _ = &c.live_nodes_watcher_tx; }
/// ```
/// twin (the receiver accessor is public):
/// ```
/// fn f(c: &chitchat::Chitchat) { let _ = c.live_nodes_watcher(); }
/// ```
pub struct WatchSenderIsPrivate;

/// C12/R12.2 — liveness evaluation / member removal cannot be driven from outside.
/// ```compile_fail,E0624
/// fn f(c: &mut chitchat::Chitchat) { c.update_nodes_liveness(); }
/// ```
/// twin:
/// ```
/// fn f(c: &chitchat::Chitchat) { let _ = c.dead_nodes().count(); }
/// ```
pub struct LivenessEvaluationIsPrivate;

/// C05/R05.3 — the heartbeat of a node state cannot be incremented from outside.
/// ```compile_fail,E0624
/// fn f(s: &mut chitchat::NodeState) { s.inc_heartbeat(); }
/// ```
/// twin:
/// ```
/// fn f(s: &chitchat::NodeState) { let _ = s.heartbeat(); }
/// ```
pub struct IncHeartbeatIsPrivate;

/// C10/C11/C12 (R11.5) — the failure detector and its sampling windows are not nameable from outside: the who-may-call
/// tables of R11.5 are closed over the crate.
/// ```compile_fail,E0603
/// fn f(_: &chitchat::failure_detector::FailureDetector) {}
/// ```
/// twin (only its configuration is public):
/// ```
/// fn f(_: &chitchat::FailureDetectorConfig) {}
/// ```
pub struct FailureDetectorIsPrivate;

/// C15 (R15.6) — the listener registry is not nameable from outside; subscriptions go through `Chitchat::subscribe_event`.
/// ```compile_fail,E0603
/// fn f(_: &chitchat::listener::Listeners) {}
/// ```
/// twin:
/// ```
/// fn f(_: &chitchat::ListenerHandle) {}
/// ```
pub struct ListenerRegistryIsPrivate;

/// C06 (R06.6) — tombstone GC of a node state cannot be driven from outside with an arbitrary grace period.
/// ```compile_fail,E0624
/// fn f(s: &mut chitchat::NodeState) { s.gc_keys_marked_for_deletion(std::time::Duration::ZERO); }
/// ```
/// twin:
/// ```
/// fn f(s: &chitchat::NodeState) { let _ = s.num_key_values(); }
/// ```
pub struct NodeStateGcIsPrivate;

/// C02/C14 — a delta cannot be applied to a node state from outside (admission cannot be bypassed through the public API).
/// ```compile_fail,E0624
/// fn f(s: &mut chitchat::NodeState, k: String, v: chitchat::VersionedValue) { s.set_versioned_value(k, v); }
/// ```
/// twin (the local write API is public):
/// ```
/// fn f(s: &mut chitchat::NodeState) { s.set("k", "v"); }
/// ```
pub struct VerbatimStoreIsPrivate;
