#!/bin/bash
# runs the compile-fail witnesses against /repo's current tree; prints "WITNESS ok <n>" or the failures
cd "$(dirname "$0")"
export CARGO_NET_OFFLINE=true
T=$(mktemp -d /tmp/chitchat-witness-XXXX)
trap 'rm -rf "$T"' EXIT
cp /repo/Cargo.lock Cargo.lock 2>/dev/null
CARGO_TARGET_DIR=$T cargo +nightly test --doc --offline 2>&1 | tail -40 > $T/out.txt
grep -E "^test result|^test src|FAILED|error" $T/out.txt | head -40
