#!/usr/bin/env python3
"""Writes MANIFEST.json from the table below (kept in one place so that it stays valid)."""
import json, os

HERE = os.path.dirname(os.path.abspath(__file__))

CLAIMS = {}
NA = {}


def claim(pid, category, text, note, technique, ref):
    CLAIMS[pid] = dict(category=category, text=text, note=note, technique=technique, ref=ref)


claim("C14", "proof",
      "The sender's per-member decision (offered?, start version, header gc) and the receiver's admission and apply "
      "effects are extracted from the compiler's MIR as comparison-only terms; the property's agreement obligations are "
      "discharged for every ordering of the five version atoms (grid 0..7, 0..9 in the thorough tier) and every truncation "
      "point. This is a complete decision of the stated clause over the ordering abstraction, not a sample.",
      "Trusted: rustc's mir_built, the extraction engine (rules/core/sym.py), the small-model argument for comparison-only "
      "terms, std Option/BTreeMap/iterator semantics. 'Space permitting' (MTU) is C07; library semantics assumed.",
      "decision-table extraction from MIR (dataflow) + exhaustive ordering enumeration of the extracted terms",
      "DESIGN.md §3 C14")

claim("C04", "other",
      "Per-step obligations decided on decision tables extracted from MIR for every path: fresh version = old max+1 on every "
      "writing path of the four mutators and exactly the specified no-op paths; complete writer inventory of the frontier "
      "fields with a monotonicity check of each writer's extracted term; raw setters confined to catch-up with "
      "max(current, supplied); stale inserts ignored; the two monotonicity assertions on the receive path implied for "
      "arbitrary (not only honest) deltas over all orderings 0..5 of (rg,rm,from,dg,dm).",
      "Not decided: 'under any delivery order' as a statement over sequences — it follows by induction from the per-step "
      "obligations (argued in DESIGN, not checked). Assumes no u64 overflow of max_version+1, BTreeMap semantics, and the "
      "decoder invariant R09.3 (checked under C09) for the max-version assertion.",
      "decision-table extraction + writer/caller inventories over MIR + ordering enumeration of extracted terms",
      "DESIGN.md §3 C04")

claim("C20", "other",
      "Decided structurally on extracted decision tables for every path: reset_node is called iff recv_apply returns "
      "ApplyAfterReset; ClusterState::apply_delta returns the OR-fold (from false) of status == ApplyAfterReset over member "
      "deltas that have a local copy (evaluated on all (old flag, status) pairs under each path condition); process_delta "
      "invokes the callback exactly once iff the flag is true and a callback is configured; process_message calls "
      "process_delta exactly once on SYN-ACK/ACK with the received delta and nowhere else; no other user of the callback field.",
      "Assumes Vec/BTreeMap iteration semantics. When a reset happens is C14's decision (R14.2/R14.3); the callback body is user code.",
      "decision-table extraction from MIR + call/field-use inventories",
      "DESIGN.md §3 C20")

claim("C02", "other",
      "Necessary inductive-step conditions decided on extracted tables: the receiver's per-key-value step stores a mutation iff "
      "version > pre-apply max and not (tombstone and version <= watermark), verbatim (all copy/delta orderings 0..4 x version x "
      "kind); a reset wipes to an empty map before the loop; admission is epoch-consistent except for the one ordering class "
      "recorded as known finding KF-1 (reproduced during design; any other class is a violation); the sender resets whenever "
      "the peer is behind its watermark.",
      "The invariant over all reachable global states is NOT decided (no sound static argument in reach): relays through "
      "several stale peers, GC timing, histories. The rules are necessary conditions whose violation yields a concrete "
      "resurrection/loss history class. BTreeMap semantics assumed.",
      "decision-table extraction from MIR + ordering enumeration; known finding by abstract ordering class",
      "DESIGN.md §3 C02")

claim("C06", "other",
      "Per-operation decision tables extracted from MIR and compared with the specified ones for every status variant / "
      "ordering: status tables, visibility of every public filtered read (get table; filter closures of key_values and "
      "iter_prefix; range bound and starts_with cut; derived readers), GC predicate (removed iff marked and now >= t+grace, "
      "boundary included; max-fold of removed versions from the current watermark; stored back), effects of delete / "
      "delete_after_ttl / set / set_with_ttl.",
      "Not decided: equality with a reference map over operation SEQUENCES (composition of the per-operation tables with "
      "BTreeMap/iterator semantics, which are assumed) and tokio::time behaviour.",
      "decision-table extraction from MIR (incl. closure bodies) + variant/ordering enumeration + call-graph reachability",
      "DESIGN.md §3 C06")

claim("C18", "other",
      "Decision table of the catch-up entry extracted from MIR; for every ordering of (current gc/max, supplied gc/max, loop "
      "value of max) the closing assertion cannot fail, no returning path lowers (gc,max), and a copy is replaced only by a "
      "snapshot that is newer and not below its watermark; creating accessor only when the removed-member memory has no entry; "
      "call-graph proof that catch-up reaches no heartbeat/liveness writer but registers the member with the failure detector; "
      "replacement discipline (pair-wise insert through set_versioned_value, removal of exactly the remaining previous keys); "
      "unvalidated supplied versions recorded as known finding KF-2.",
      "Interleavings with gossip are not explored (each gossip step is separately monotone, C04). HashSet/BTreeMap semantics "
      "assumed. Panics inside callees other than the closing assertion are covered by the panic inventory of C09.",
      "decision-table extraction from MIR + ordering enumeration + call-graph reachability + writer inventory",
      "DESIGN.md §3 C18")

claim("C01", "other",
      "NOT decided: convergence within a bounded number of handshakes over fair schedules (liveness over histories; no sound "
      "static argument in reach). Decided: the strict-advance clause — for every ordering of sender/receiver frontiers and "
      "every truncation point the delta computed from the receiver's digest is applied and strictly raises (gc,max) — plus "
      "necessary structural conditions: empty-tail SetMaxVersion (sender flag discipline and wire re-emission), exclusion set "
      "built from scheduled-for-deletion members at all four sites, handshake shape per message arm (dataflow of received "
      "digest/delta into compute/apply, order apply-then-compute on SYN-ACK).",
      "The induction from per-handshake progress to convergence, MTU effects (C07) and scheduling fairness are outside the check.",
      "decision-table extraction from MIR + ordering enumeration + dataflow of call arguments",
      "DESIGN.md §3 C01")
claim("C16", "other",
      "Decided on the extracted table of process_message: SYN arm compares the received cluster id by plain string "
      "(in)equality with config.cluster_id before any state-changing callee; the mismatch side only returns BadCluster; "
      "BadCluster arm has no effect; the pre-check effect update_self_heartbeat is confined to the own heartbeat (call graph + "
      "write inventory); create_syn copies config.cluster_id; SYN-ACK/ACK are constructed only as replies; config is never "
      "written after construction.",
      "Two-cluster schedules are not explored; isolation of honest clusters follows from the per-message rules (a foreign "
      "honest node only ever answers BadCluster). String equality semantics assumed.",
      "decision-table extraction from MIR + constructor/writer inventories + call-graph reachability",
      "DESIGN.md §3 C16")

claim("C11", "other",
      "Evidence rules decided on extracted tables: try_set_heartbeat over all orderings of (stored, new); the only path into "
      "the failure detector is guarded by try_set_heartbeat == true and 'not own id', with (id, heartbeat) from one digest "
      "entry and single callers all along the chain; sample admission table of the sampling window (first report sets only "
      "last_heartbeat; append iff previous report and interval <= max_interval; phi None while empty); dead branch always "
      "looks up and resets the window, reset clears intervals and keeps last_heartbeat; catch-up reaches no heartbeat sink.",
      "The accuracy clause (steady heartbeats within [a,b] never flagged when threshold >= b/min(a, initial)) is a real-"
      "arithmetic lemma over the formula shape checked under C10/R10.2; timing of evaluations and float rounding are not "
      "analysed.",
      "decision-table extraction from MIR + ordering enumeration + caller inventories",
      "DESIGN.md §3 C11")

claim("C10", "other",
      "The bound is a real-arithmetic lemma; the check decides that the code has its premises and shape: sample admission "
      "(append iff previous report and interval <= max_interval), exact equality of the extracted mean/phi terms with "
      "(sum + w*prior)/(len + w) and elapsed/mean on a rational grid, phi None for len = 0, positive constant prior weight, "
      "parameter flow config -> SamplingWindow::new -> fields, liveness decision alive <=> phi = Some(p) and p <= threshold "
      "with the set effects of each branch, bounded-window bookkeeping tables (append/clear/len), only fresh heartbeats "
      "recorded.",
      "The time bound as a measured quantity, floating-point drift of the incremental sum, and sampling_window_size = 0 are "
      "not decided. Instant/Duration arithmetic and HashMap/HashSet semantics assumed.",
      "decision-table extraction from MIR + evaluation of extracted arithmetic terms on a rational grid",
      "DESIGN.md §3 C10")

claim("C12", "other",
      "Decided structurally on extracted tables and inventories: exactly-one-set effect of every path of update_node_liveness "
      "(first time of death kept, window reset while dead), garbage_collect removal, complete writer inventory of the three "
      "detector maps; own id never evaluated/removed and always first in live_nodes(); scheduled <=> tod + grace/2 < now and "
      "collected <=> now >= tod + grace over all orderings of the instants; exclusion set from scheduled members at all send "
      "sites and honoured by digest and delta; removal remembers (id, heartbeat) in the constant-capacity LRU; copies created "
      "only for the own id, by a digest heartbeat strictly above the remembered one (or no memory), or by catch-up without "
      "memory; deltas never create.",
      "Beyond 500 remembered members (LRU eviction), real-time skew between survivors and multi-node schedules are not "
      "explored. HashMap/HashSet/LruCache and Instant arithmetic assumed.",
      "decision-table extraction from MIR (incl. closures) + ordering enumeration + writer/caller inventories + call-graph",
      "DESIGN.md §3 C12")

claim("C13", "other",
      "Publication discipline decided on the extracted table of update_nodes_liveness and its closures: single publisher "
      "(field-use inventory), send iff whole-map inequality previous != current with previous := current on exactly those "
      "paths, compared map = live_nodes() keyed by full member id -> max_version, sent map = same keys filtered by the extra "
      "predicate (all four predicate cases) with clones of the current state, accessors clone the receiver paired with the "
      "sender.",
      "'After every evaluation the held value is exact' additionally needs predicate flips to imply a max-version change "
      "(true for predicates over key-values by C04/R04.1; documented otherwise). HashMap equality and tokio watch semantics "
      "assumed.",
      "decision-table extraction from MIR (incl. closure bodies) + field-use inventory",
      "DESIGN.md §3 C13")

claim("C17", "other",
      "The decision table of select_nodes_for_gossip (helpers inlined) is extracted from MIR and evaluated exhaustively for "
      "set sizes 0..6, extreme/mid random draws and both outcomes of 'a sampled peer is a seed' (12,348 combinations, every "
      "combination must match a path): sample source (live, or all peers when none is live) and constant size 3, dead pick "
      "whenever dead > live, seed pick whenever isolated with a seed and no sampled seed, picks drawn from their own pools; "
      "the four pools handed to the selection are traced to cluster_state.nodes()/live_nodes()/dead_nodes()/seed_nodes() with "
      "the self filters evaluated from the closure bodies.",
      "Uniformity of rand's sample/choose is not analysed; 'sample(n) yields at most n distinct items' and 'choose is Some iff "
      "non-empty' are assumed; IEEE division by zero is modelled (inf/NaN).",
      "decision-table extraction from MIR + exhaustive evaluation of the extracted formulas + dataflow of call arguments",
      "DESIGN.md §3 C17")

claim("C05", "other",
      "API-surface, heartbeat and admission clauses decided statically: from the compiler's effective-visibility table the "
      "only externally reachable source of a mutable node state is self_node_state (own id), the public &mut entry points are "
      "an explicit table, internal mutators/ClusterState are not nameable; a digest entry for the own id reaches no writer; "
      "own heartbeat incremented only via self_node_state() from constructor/process_message/gossip round; tombstone GC only "
      "from the gossip round; for all orderings the owner's copy rejects every delta whose max/gc/from do not exceed its own "
      "max (stale or duplicated honest deltas); sender offers only when ahead; key-values only under their own header.",
      "NOT decided: 'no message from honest peers alters own key-values' as such — it additionally needs the honest-copy "
      "invariant (no copy ahead of the owner), an induction over histories (C03's undecided clause). Assumes one incarnation "
      "per ChitchatId.",
      "effective-visibility/API inventory + decision-table extraction + ordering enumeration + caller inventories",
      "DESIGN.md §3 C05")

claim("C09", "other",
      "Panic inventory over the compiler's MIR: all panic-capable sites (Assert terminators, calls to a table of panicking "
      "std/bytes callees, diverging calls from assert!/panic!) reachable in the call graph from the datagram entry points "
      "(UDP receive, message decode, process_message, reply serialisation) — 85 sites in 181 functions on the pinned tree — "
      "must each be discharged: additive 64-bit overflow, constant operands, or a table row that is guarded and mechanically "
      "re-verified (amount <= buffer length implied by path conditions, successful get(..n) before consume/advance(n), "
      "char-boundary construction of str ranges), implied by a rule run in the same check (decoder invariant R09.3, "
      "assertions implied for ARBITRARY deltas R09.4, own heartbeat never set from the wire), or argued per confirmed site "
      "count. Unlisted sites, extra sites of an argued kind and lost guards are violations.",
      "Relative to the panicking-callee table: panics inside zstd/tokio/std beyond it, memory exhaustion and poisoning of "
      "state by well-formed lies are not covered. Assumes the property's precondition (own digest fits a datagram) and a "
      "failure-detector window size >= 1.",
      "call-graph reachability + panic-site inventory over MIR + mechanical guard re-verification on extracted path conditions",
      "DESIGN.md §3 C09, §2.6")

claim("C19", "other",
      "Decided on the coroutine bodies of the server (mir_built of the async fns): the gossip loop returns Err only when "
      "select branch 0 (transport.recv) yielded Err and Ok only on Shutdown / closed command channel (no result of "
      "handle_message/gossip reaches a return; every return of a gossip round passes the liveness update); receive_one's "
      "classification table (decode error and transient io error -> Ok(None), other io errors -> Err); no await point and no "
      "transport/gossip call between the first use of a MutexGuard<Chitchat> and its real (non-moved) drop, in all four "
      "coroutines; the spawned task publishes Some(status) after run() on every returning path and a closed channel is "
      "reported as 'panicked'; panic inventory of the send/gossip path with the C09 discharge table.",
      "NOT decided: that later rounds are not stalled (tokio fairness, Interval behaviour), real UDP behaviour, shutdown "
      "latency. Assumes tokio::select! numbers branches in source order.",
      "path tables over coroutine MIR (await loops cut) + event-order (typestate) rule for the mutex guard + panic inventory",
      "DESIGN.md §3 C19")

claim("C15", "other",
      "Decided statically: every str range-index site has char-boundary bounds by construction; events fire from a single "
      "site iff the insert was accepted (vacant or strictly newer) and the new status is not Deleted, carrying key/new value/"
      "owner id, and deletes cannot reach the listeners; in the dispatcher the empty-prefix listeners get the unstripped event, "
      "all others only after a successful strip of the prefix of the SAME map entry, the empty key skips the scan, any early "
      "exit is implied by prefix > key and the scanned range [first char, key] contains every non-empty prefix — both "
      "evaluated over all strings up to length 2-3 of an alphabet with 1-, 2- and 4-byte characters on the extracted terms; "
      "strip_key_prefix strips exactly the prefix; handle drop / forever / id allocation; every copy created or reset by the "
      "cluster state carries the shared listener registry.",
      "BTreeMap::range and str::strip_prefix semantics assumed; 'exactly once per subscription' additionally relies on the "
      "HashMap of callbacks per prefix (one entry per id). Unrecognised range-bound forms are reported as 'not decided', not as "
      "violations.",
      "decision-table extraction from MIR + evaluation of extracted string predicates on an exhaustive small-string domain + inventories",
      "DESIGN.md §3 C15")

claim("C07", "other",
      "Structure decided statically, byte bound modulo a stated compression assumption: the extracted linear form of the "
      "announced SYN-ACK/ACK length with delta length = the extracted budget term never exceeds 65,507 for any digest length "
      "(and the reserved digest is the one sent); every op reaches the stream writer only through try_add_op, whose extracted "
      "table appends only if the upper bound <= mtu and refuses only within 8 bytes of it; the bound's formula equals out + "
      "open + item + 3 + 1 (+3 across a block boundary) and its overhead constants equal what flush_block/finish write; "
      "key-values come from the offered copy above the start version, sorted by version, only under their own accepted "
      "header; after the first refusal nothing else is added; excluded members are never offered.",
      "Real compressed sizes cannot be decided statically: assumes an appended item crosses at most one block boundary or "
      "that closed blocks compress enough to pay for their headers, and that zstd writes at most the destination length. "
      "'Exactly the sender's entries' relies on BTreeMap iteration and sort semantics.",
      "linear-form extraction from MIR + grid evaluation of extracted admission/bound tables + who-may-call + event-order rules",
      "DESIGN.md §3 C07")

claim("C08", "other",
      "Sibling agreement of the hand-written codecs extracted from MIR: ordered items written by serialize vs ordered decodes "
      "and the field each lands in, for 7 struct/enum codec pairs, the integer endianness pairs and the digest loop; "
      "byte->variant decoders vs enum discriminants for the six tagged enums, with an error exit for unknown bytes; the "
      "linear form of serialized_len vs the multiset of bytes and nested lengths (with sources) written, for 27 (type, "
      "variant) forms; provenance of Delta.serialized_len; block-threshold agreement over the boundary grid; and equality of "
      "the extracted writer layout with the reference layout of the pinned tree (catches a consistent reorder of writer and "
      "reader, which no round-trip test can see).",
      "NOT decided: byte-level round-trip equality for all inputs and agreement with an independently written implementation "
      "(there is no second implementation to analyse statically). The reference layout was read off the pinned tree.",
      "wire-table extraction from MIR (writer/reader/length siblings) + tag-table comparison + reference-layout comparison",
      "DESIGN.md §3 C08")

claim("C03", "other",
      "Structural clauses decided statically by field-copy agreement on extracted aggregates: every carrier of an entry "
      "(KeyValueMutation, KeyValueMutationRef, DeltaOpRef, DeltaOp::Node, NodeDigest, the (id, digest) pair, the receiver's "
      "VersionedValue) takes each field from the same-named source field / positional argument and an accepted insert stores "
      "the update unchanged with no later rewrite; status conversions compose to the identity on kinds; decode grouping "
      "(flush, duplicate-member rejection, ops only through the current member delta, error without header); heartbeat "
      "provenance and SetMaxVersion content re-checked through the rules of C05/C14/C02.",
      "NOT decided: 'no copy's max version or heartbeat ever exceeds the owner's' — an induction over histories. Swapped "
      "fields are self-consistent at run time (invisible to round-trip tests), which is what the field-copy rule is for.",
      "field-copy agreement on aggregates extracted from MIR + decision tables of the decoder + inventories",
      "DESIGN.md §3 C03")

ALL = ["C%02d" % i for i in range(1, 21)]
PENDING_REASON = "check under construction in this session (rules designed in DESIGN.md §3, not yet armed)"

manifest = {
    "version": 1,
    "setup_cmd": "cd /verif && ./setup.sh",
    "hooks": {
        "guard": "quickwit_oss_chitchat_verif",
        "enable": "none needed: the checks analyse the compiler's MIR of /repo's working tree and execute nothing",
        "baseline_off_cmd": "cd /repo && . /w/out/rust_env.sh 2>/dev/null; RUSTUP_TOOLCHAIN=${RUSTUP_TOOLCHAIN:-1.88.0} cargo nextest run --workspace --no-fail-fast --tool-config-file pb:/w/lib/nextest.toml --profile pb --test-threads 8 --offline",
        "source_commits": [],
        "add_only": True,
    },
    "engines": [
        {"name": "factgen", "path": "/verif/factgen", "serves_properties": ALL,
         "kind_free_text": "rustc_private driver (RUSTC_WORKSPACE_WRAPPER) exporting items, visibilities and mir_built "
                           "bodies with resolved callees, field names and macro provenance as JSON"},
        {"name": "rules", "path": "/verif/rules", "serves_properties": ALL,
         "kind_free_text": "Python rule engine over the facts: CFG dominance, call graph, decision-table extraction, "
                           "ordering enumeration, writer/caller inventories, wire-table agreement, panic inventory with buffer-version-aware guard "
                           "verification, forwarder tables (wrappers.py), structural identity (identity.py), lossy-adaptor inventory (adaptors.py)"},
        {"name": "witness", "path": "/verif/witness", "serves_properties": ["C02", "C05", "C06", "C10", "C11", "C12", "C13", "C14", "C15"],
         "kind_free_text": "compile_fail doc-tests with compiling twins (thorough tier): what an external crate cannot name or call"},
    ],
    "checks": [],
    "not_applicable": [],
    "notes": "All checks are static: they rebuild facts from /repo's working tree with `cargo +nightly check` through the "
             "factgen wrapper and never run chitchat code. known_findings.json lists genuine defects (known / fixed).",
}
HARDENING = (" Since the seeded-change rounds (DESIGN.md §11-§12) the check also runs: the rules of other properties it rests on "
             "(listed as Rxx.y(Rzz.w) in RULES.md), forwarder/accessor tables for the one-line wrappers on its paths, who-may-call and "
             "owner-only-writer inventories, the structural-identity rules RD.1/RD.2 (derived Eq/Ord/Hash/Clone, container key types) "
             "where it compares or copies values, and the lossy-adaptor / lossy-cast inventory RA.1 over every body its engines walked.")
for pid in ALL:
    if pid in CLAIMS:
        c = dict(CLAIMS[pid])
        c["text"] = c["text"] + HARDENING
        c["technique"] = c["technique"] + " + forwarder tables, who-may-call / writer inventories, derived-impl and key-type checks, lossy-adaptor inventory (all over rustc MIR facts; nothing executed)"
        manifest["checks"].append({
            "property_id": pid,
            "quick_cmd": "./check %s quick" % pid,
            "thorough_cmd": "./check %s thorough" % pid,
            "evidence_file": "/verif/evidence/%s.json" % pid,
            "replay_cmd_template": "cat {path}",
            "engine": "factgen+rules",
            "level_claimed": {"category": c["category"], "text": c["text"], "design_ref": c["ref"]},
            "level_note": c["note"],
            "technique": c["technique"],
        })
    else:
        manifest["not_applicable"].append({"property_id": pid, "reason": NA.get(pid, PENDING_REASON)})

with open(os.path.join(HERE, "MANIFEST.json"), "w") as f:
    json.dump(manifest, f, indent=1)
print("MANIFEST.json: %d checks, %d not applicable" % (len(manifest["checks"]), len(manifest["not_applicable"])))
