"""Roles = anchors shared by the property rules, resolved from the facts by impl type and
signature (names only break ties).  Every accessor raises AnchorLost when it cannot resolve."""
from .core import anchors as A

NS = "state::NodeState"
CS = "state::ClusterState"
ND = "delta::NodeDelta"
DS = "delta::DeltaSerializer"
CH = "Chitchat"
FD = "failure_detector::FailureDetector"
SW = "failure_detector::SamplingWindow"
HASHSET_IDS = "&std::collections::HashSet<&types::ChitchatId>"


A.ROLE_HINTS.update({
    "recv_admission": "check_delta_status", "recv_apply": "apply_delta", "set_versioned_value": "set_versioned_value",
    "compute_delta": "compute_partial_delta_respecting_mtu", "compute_digest": "compute_digest", "cluster_apply": "apply_delta",
    "node_digest": "digest", "staleness_score": "staleness_score", "offer": "offer", "stale_kvs": "stale_key_values",
    "ns_stale_kvs": "stale_key_values", "try_set_heartbeat": "try_set_heartbeat", "ns_gc": "gc_keys_marked_for_deletion",
    "cs_gc": "gc_keys_marked_for_deletion", "node_state_mut_or_init": "node_state_mut_or_init", "node_state_mut": "node_state_mut",
    "remove_node": "remove_node", "last_heartbeat_if_deleted": "last_heartbeat_if_deleted", "ser_new": "with_mtu",
    "ser_add_node": "try_add_node", "ser_add_kv": "try_add_kv", "ser_set_max": "try_set_max_version", "ser_add_op": "try_add_op",
    "ser_finish": "finish", "builder_apply_op": "apply_op", "builder_finish": "finish", "process_message": "process_message",
    "process_delta": "process_delta", "report_heartbeat": "report_heartbeat", "report_heartbeats_in_digest": "report_heartbeats_in_digest",
    "create_syn": "create_syn_message", "self_node_state": "self_node_state", "catchup": "reset_node_state_if_update",
    "chitchat_compute_digest": "compute_digest", "fd_garbage_collect": "garbage_collect",
    "fd_get_or_create_window": "get_or_create_sampling_window", "fd_phi": "phi", "sw_phi": "phi", "sw_new": "new",
})


class Roles:
    def __init__(self, fx):
        self.fx = fx
        self._c = {}

    def _get(self, name, thunk):
        if name not in self._c:
            self._c[name] = thunk()
        return self._c[name]

    # ----- state.rs
    @property
    def recv_admission(self):
        return self._get("recv_admission", lambda: A.method(
            self.fx, "recv_admission", NS, ["&state::NodeState", "&delta::NodeDelta"], "state::DeltaStatus"))

    @property
    def recv_apply(self):
        return self._get("recv_apply", lambda: A.method(
            self.fx, "recv_apply", NS, ["&mut state::NodeState", "delta::NodeDelta", "tokio::time::Instant"],
            "state::DeltaStatus"))

    @property
    def reset_node(self):
        def find():
            try:
                return A.method(self.fx, "reset_node", NS, ["&mut state::NodeState", "u64"], "()", hint="reset_node")
            except A.AnchorLost:
                # the reset may have been inlined into the receiver: a whole overwrite `*self = NodeState::new(..)` inside recv_apply.
                # The role then designates recv_apply itself, marked `inlined` (rules look at the overwrite event, not at a call).
                ra = self.recv_apply
                from .core import inventory as inv
                if any(self.fx.root_fn(s.fn) == ra["id"] for s in inv.whole_writes(self.fx, NS)):
                    d = dict(ra)
                    d["inlined"] = True
                    return d
                raise
        return self._get("reset_node", find)

    def reset_events(self, row, recv_root=("S", "recv")):
        """the reset on a path of recv_apply: calls of reset_node, or — when it is inlined — whole overwrites of the copy"""
        rn = self.reset_node
        if not rn.get("inlined"):
            return [e for e in row.events if e[0] == "call" and e[1] == rn["id"]]
        return [e for e in row.events if e[0] == "write" and e[1] == recv_root and tuple(e[2]) == () and e[3][0] == "agg"]

    @property
    def set_versioned_value(self):
        return self._get("set_versioned_value", lambda: A.method(
            self.fx, "set_versioned_value", NS,
            ["&mut state::NodeState", "std::string::String", "types::VersionedValue"], "()"))

    @property
    def compute_delta(self):
        return self._get("compute_delta", lambda: A.method(
            self.fx, "compute_delta", CS, ["&state::ClusterState", "&digest::Digest", "usize", HASHSET_IDS],
            "delta::Delta"))

    @property
    def compute_digest(self):
        return self._get("compute_digest", lambda: A.method(
            self.fx, "compute_digest", CS, ["&state::ClusterState", HASHSET_IDS], "digest::Digest"))

    @property
    def cluster_apply(self):
        return self._get("cluster_apply", lambda: A.method(
            self.fx, "cluster_apply", CS, ["&mut state::ClusterState", "delta::Delta"], "bool"))

    @property
    def node_digest(self):
        return self._get("node_digest", lambda: A.method(
            self.fx, "node_digest", NS, ["&state::NodeState"], "digest::NodeDigest"))

    @property
    def staleness_score(self):
        return self._get("staleness_score", lambda: A.method(
            self.fx, "staleness_score", None, ["&state::NodeState", "u64"],
            "std::option::Option<state::Staleness>", kind=("fn",)))

    @property
    def offer(self):
        return self._get("offer", lambda: A.method(
            self.fx, "offer", "state::SortedStaleNodes<'a>",
            ["&mut state::SortedStaleNodes<'a>", "&'a types::ChitchatId", "&'a state::NodeState", "u64"], "()"))

    @property
    def stale_kvs(self):
        return self._get("stale_kvs", lambda: A.method(
            self.fx, "stale_kvs", "state::StaleNode<'_>", ["&state::StaleNode<'_>"], None))

    @property
    def ns_stale_kvs(self):
        return self._get("ns_stale_kvs", lambda: A.method(
            self.fx, "ns_stale_kvs", NS, ["&state::NodeState", "u64"],
            lambda o: o.startswith("impl std::iter::Iterator")))

    @property
    def try_set_heartbeat(self):
        return self._get("try_set_heartbeat", lambda: A.method(
            self.fx, "try_set_heartbeat", NS, ["&mut state::NodeState", "types::Heartbeat"], "bool"))

    @property
    def ns_gc(self):
        return self._get("ns_gc", lambda: A.method(
            self.fx, "ns_gc", NS, ["&mut state::NodeState", "std::time::Duration"], "()"))

    @property
    def cs_gc(self):
        return self._get("cs_gc", lambda: A.method(
            self.fx, "cs_gc", CS, ["&mut state::ClusterState", "std::time::Duration"], "()"))

    @property
    def node_state_mut_or_init(self):
        return self._get("node_state_mut_or_init", lambda: A.method(
            self.fx, "node_state_mut_or_init", CS, ["&mut state::ClusterState", "&types::ChitchatId"],
            "&mut state::NodeState"))

    @property
    def node_state_mut(self):
        return self._get("node_state_mut", lambda: A.method(
            self.fx, "node_state_mut", CS, ["&mut state::ClusterState", "&types::ChitchatId"],
            "std::option::Option<&mut state::NodeState>"))

    @property
    def remove_node(self):
        return self._get("remove_node", lambda: A.method(
            self.fx, "remove_node", CS, ["&mut state::ClusterState", "&types::ChitchatId"], "()"))

    @property
    def last_heartbeat_if_deleted(self):
        return self._get("last_heartbeat_if_deleted", lambda: A.method(
            self.fx, "last_heartbeat_if_deleted", CS, ["&state::ClusterState", "&types::ChitchatId"],
            "std::option::Option<types::Heartbeat>"))

    # ----- delta.rs
    @property
    def ser_new(self):
        return self._get("ser_new", lambda: A.method(self.fx, "ser_new", DS, ["usize"], DS))

    @property
    def ser_add_node(self):
        return self._get("ser_add_node", lambda: A.method(
            self.fx, "ser_add_node", DS, ["&mut " + DS, "types::ChitchatId", "u64", "u64"], "bool"))

    @property
    def ser_add_kv(self):
        return self._get("ser_add_kv", lambda: A.method(
            self.fx, "ser_add_kv", DS, ["&mut " + DS, "&str", "types::VersionedValue"], "bool"))

    @property
    def ser_set_max(self):
        return self._get("ser_set_max", lambda: A.method(
            self.fx, "ser_set_max", DS, ["&mut " + DS, "u64"], "bool"))

    @property
    def ser_add_op(self):
        return self._get("ser_add_op", lambda: A.method(
            self.fx, "ser_add_op", DS, ["&mut " + DS, "delta::DeltaOp"], "bool"))

    @property
    def ser_finish(self):
        return self._get("ser_finish", lambda: A.method(self.fx, "ser_finish", DS, [DS], "delta::Delta"))

    @property
    def builder_apply_op(self):
        return self._get("builder_apply_op", lambda: A.method(
            self.fx, "builder_apply_op", "delta::DeltaBuilder", ["&mut delta::DeltaBuilder", "delta::DeltaOp"],
            "std::result::Result<(), anyhow::Error>"))

    @property
    def builder_finish(self):
        return self._get("builder_finish", lambda: A.method(
            self.fx, "builder_finish", "delta::DeltaBuilder", ["delta::DeltaBuilder", "usize"], "delta::Delta"))

    # ----- lib.rs
    @property
    def process_message(self):
        return self._get("process_message", lambda: A.method(
            self.fx, "process_message", CH, ["&mut Chitchat", "message::ChitchatMessage"],
            "std::option::Option<message::ChitchatMessage>"))

    @property
    def process_delta(self):
        return self._get("process_delta", lambda: A.method(
            self.fx, "process_delta", CH, ["&mut Chitchat", "delta::Delta"], "()"))

    @property
    def report_heartbeat(self):
        return self._get("report_heartbeat", lambda: A.method(
            self.fx, "report_heartbeat", CH, ["&mut Chitchat", "&types::ChitchatId", "types::Heartbeat"], "()"))

    @property
    def report_heartbeats_in_digest(self):
        return self._get("report_heartbeats_in_digest", lambda: A.method(
            self.fx, "report_heartbeats_in_digest", CH, ["&mut Chitchat", "&digest::Digest"], "()"))

    @property
    def create_syn(self):
        return self._get("create_syn", lambda: A.method(
            self.fx, "create_syn", CH, ["&Chitchat"], "message::ChitchatMessage"))

    @property
    def update_nodes_liveness(self):
        return self._get("update_nodes_liveness", lambda: A.method(
            self.fx, "update_nodes_liveness", CH, ["&mut Chitchat"], "()", hint="update_nodes_liveness"))

    @property
    def update_self_heartbeat(self):
        return self._get("update_self_heartbeat", lambda: A.method(
            self.fx, "update_self_heartbeat", CH, ["&mut Chitchat"], "()", hint="update_self_heartbeat"))

    @property
    def chitchat_gc_keys(self):
        return self._get("chitchat_gc_keys", lambda: A.method(
            self.fx, "chitchat_gc_keys", CH, ["&mut Chitchat"], "()", hint="gc_keys_marked_for_deletion"))

    @property
    def self_node_state(self):
        return self._get("self_node_state", lambda: A.method(
            self.fx, "self_node_state", CH, ["&mut Chitchat"], "&mut state::NodeState"))

    @property
    def catchup(self):
        return self._get("catchup", lambda: A.method(
            self.fx, "catchup", CH,
            ["&mut Chitchat", "&types::ChitchatId", lambda t: t.startswith("impl Iterator") or t.startswith("impl std::iter::Iterator"),
             "u64", "u64"], "()"))

    @property
    def chitchat_compute_digest(self):
        return self._get("chitchat_compute_digest", lambda: A.method(
            self.fx, "chitchat_compute_digest", CH, ["&Chitchat", HASHSET_IDS], "digest::Digest"))

    @property
    def scheduled_for_deletion_nodes(self):
        return self._get("scheduled_for_deletion_nodes", lambda: A.method(
            self.fx, "scheduled_for_deletion_nodes", CH, ["&Chitchat"],
            lambda o: o.startswith("impl std::iter::Iterator<Item = &types::ChitchatId>"),
            hint="scheduled_for_deletion_nodes"))

    # ----- failure_detector.rs
    @property
    def fd_report_heartbeat(self):
        return self._get("fd_report_heartbeat", lambda: A.method(
            self.fx, "fd_report_heartbeat", FD, ["&mut " + FD, "&types::ChitchatId"], "()", hint="report_heartbeat"))

    @property
    def fd_update_node_liveness(self):
        return self._get("fd_update_node_liveness", lambda: A.method(
            self.fx, "fd_update_node_liveness", FD, ["&mut " + FD, "&types::ChitchatId"], "()",
            hint="update_node_liveness"))

    @property
    def fd_garbage_collect(self):
        return self._get("fd_garbage_collect", lambda: A.method(
            self.fx, "fd_garbage_collect", FD, ["&mut " + FD], "std::vec::Vec<types::ChitchatId>"))

    @property
    def fd_get_or_create_window(self):
        return self._get("fd_get_or_create_window", lambda: A.method(
            self.fx, "fd_get_or_create_window", FD, ["&mut " + FD, "&types::ChitchatId"], "&mut " + SW))

    @property
    def fd_scheduled(self):
        return self._get("fd_scheduled", lambda: A.method(
            self.fx, "fd_scheduled", FD, ["&" + FD],
            lambda o: o.startswith("impl std::iter::Iterator<Item = &types::ChitchatId>"),
            hint="scheduled_for_deletion_nodes"))

    @property
    def fd_phi(self):
        def find():
            try:
                return A.method(self.fx, "fd_phi", FD, ["&mut " + FD, "&types::ChitchatId"], "std::option::Option<f64>")
            except A.AnchorLost:
                # the per-member phi lookup in another shape (`&self`, a free function over the sample map, ...): the unique
                # function of the module that takes the member id last, returns Option<f64> and asks a window for its phi
                from .core import callgraph
                cg = callgraph.CallGraph(self.fx)
                sw = self.sw_phi["id"]
                c = [f for f in self.fx.fns.values() if f["kind"] in ("fn", "method") and f.get("output") == "std::option::Option<f64>"
                     and (f.get("inputs") or [""])[-1] == "&types::ChitchatId" and len(f["inputs"]) == 2
                     and f["id"].startswith("failure_detector::") and sw in cg.edges.get(f["id"], ())]
                if len(c) != 1:
                    raise
                d = dict(c[0])
                d["reshaped"] = True
                return d
        return self._get("fd_phi", find)

    @property
    def sw_report_heartbeat(self):
        return self._get("sw_report_heartbeat", lambda: A.method(
            self.fx, "sw_report_heartbeat", SW, ["&mut " + SW], "()", hint="report_heartbeat"))

    @property
    def sw_reset(self):
        return self._get("sw_reset", lambda: A.method(self.fx, "sw_reset", SW, ["&mut " + SW], "()", hint="reset"))

    @property
    def sw_phi(self):
        return self._get("sw_phi", lambda: A.method(
            self.fx, "sw_phi", SW, ["&" + SW], "std::option::Option<f64>"))

    @property
    def sw_new(self):
        return self._get("sw_new", lambda: A.method(
            self.fx, "sw_new", SW, ["usize", "std::time::Duration", "std::time::Duration"], SW))
