"""Shared analysis of the four local mutators of NodeState and of set_versioned_value
(used by C04, C06, C15, C02)."""
from .core import sym, tables as T, orderenum as oe
from .core.sym import Engine
from .core import anchors as A
from .roles import NS

VV = "types::VersionedValue"
SELF = ("S", "self")
F = lambda adt, name: ("f", adt, name)
OLD_MAX = ("proj", ("obj", SELF), F(NS, "max_version"))
OLD_GC = ("proj", ("obj", SELF), F(NS, "last_gc_version"))


def listener_fns(fx):
    return {f["id"] for f in fx.fns.values() if f.get("impl_self") in ("listener::Listeners", "listener::InnerListeners")}


def mutators(fx):
    """public mutators of NodeState taking user strings: role -> fn"""
    out = {}
    imp = lambda t: t.startswith("impl ")
    cands = [f for f in fx.methods_of(NS) if not f.get("impl_trait") and f.get("vis") == "pub"
             and (f.get("inputs") or [""])[0] == "&mut state::NodeState" and f.get("output") == "()"]
    two_impl = [f for f in cands if len(f["inputs"]) == 3 and imp(f["inputs"][1]) and imp(f["inputs"][2])]
    one_str = [f for f in cands if f["inputs"][1:] == ["&str"]]
    for f in two_impl + one_str:
        out[f["id"].split("::")[-1]] = f
    for need in ("set", "set_with_ttl", "delete", "delete_after_ttl"):
        if need not in out:
            raise A.AnchorLost("mutator:" + need, "public NodeState mutator not found (candidates: %s)" % sorted(out))
    return out


def is_havoc(v):
    return v[0] == "call" and (v[1].startswith("havoc:") or v[1].startswith("fold:"))


def effective_writes(row):
    """writes of a row that are not engine havoc markers"""
    return [e for e in row.events if e[0] == "write" and not is_havoc(e[3])]


def vv_aggs(row):
    """VersionedValue literals stored on this path (assigned through a reference or handed to an
    insert call)"""
    out = []

    def whole(v):
        """a whole symbolic VersionedValue moved into the map (`*slot = update` / `vacant.insert(update)` without a clone) is the
        literal made of its own fields"""
        if v[0] == "obj" and v[1][0] == "S":
            return ("agg", VV, "VersionedValue", tuple((n, ("proj", v, F(VV, n))) for n in ("value", "version", "status")))
        return None
    for e in row.events:
        if e[0] == "write" and e[3][0] == "agg" and e[3][1] == VV:
            out.append(("assign", e[3], e))
        elif e[0] == "write" and e[2] == () and whole(e[3]) and e[1][0] == "D":
            out.append(("assign", whole(e[3]), e))
        elif e[0] == "call" and (sym.strip_all_generics(e[1]).endswith("VacantEntry::insert")
                                  or sym.strip_all_generics(e[1]).endswith("BTreeMap::insert")):
            for a in e[2][1:]:
                if a[0] == "agg" and a[1] == VV:
                    out.append(("insert", a, e))
                elif whole(a) and a[1] == ("S", "upd"):
                    out.append(("insert", whole(a), e))
    return out


def field_writes(row, adt, name):
    return [e for e in effective_writes(row) if e[2] and e[2][-1] == F(adt, name)]


def _status_source(t):
    """'get' when the status belongs to the value found by a map lookup (the previous value), 'upd' when it belongs to a
    symbolic argument, 'entry' when it belongs to an occupied entry"""
    for s in T.subterms(t):
        if s[0] == "call":
            nm = sym.strip_all_generics(s[1]).split("::")[-1]
            if nm in ("get", "get_versioned"):
                return "get"
            if nm in ("get_mut", "entry", "into_mut"):
                return "entry"
    return "upd"


STATUS_VARIANTS = ("Set", "Deleted", "DeleteAfterTtl")


def status_deleted(info):
    """the path knows the status is Deleted"""
    return info.get("status_set") == {"Deleted"}


def status_visible(info):
    """the path knows the status is not Deleted (Set or DeleteAfterTtl) — through a positive arm or `!matches!(.., Deleted)`"""
    ss = info.get("status_set")
    return ss is not None and "Deleted" not in ss and len(ss) < len(STATUS_VARIANTS) + 0 and len(ss) >= 1


def cond_info(row, status_from=("get", "upd")):
    """classification of a mutator path: key present?, value equal?, previous status"""
    info = {"present": None, "eq": None, "status": None, "entry": None, "stale": None, "status_set": None}
    poss = None
    for c in row.cond:
        if c[0] == "variant" and T.last_field(c[1]) == (VV, "status") and _status_source(c[1]) in status_from:
            if poss is None:
                poss = set(STATUS_VARIANTS)
            names = set(c[2]) if isinstance(c[2], (tuple, list)) else {c[2]}
            poss = (poss & names) if c[3] else (poss - names)
    if poss is not None and len(poss) < len(STATUS_VARIANTS):
        info["status_set"] = poss
    for c in row.cond:
        if c[0] == "variant":
            t = c[1]
            if t[0] == "call" and sym.strip_all_generics(t[1]).split("::")[-1] in ("get", "get_mut") and c[3]:
                info["present"] = c[2] == "Some"
                if sym.strip_all_generics(t[1]).split("::")[-1] in ("get_mut", "get") and info["entry"] is None and "BTreeMap" in t[1] or (
                        sym.strip_all_generics(t[1]).split("::")[-1] == "get_mut" and info["entry"] is None):
                    # `match map.get_mut(&k) { Some(v) => .., None => { map.insert(k, ..) } }` is the entry API spelled out
                    info["entry"] = "Occupied" if c[2] == "Some" else "Vacant"
            elif t[0] == "call" and sym.strip_all_generics(t[1]).endswith("::entry") and c[3]:
                info["entry"] = c[2]
            elif T.last_field(t) == (VV, "status") and _status_source(t) in status_from:
                if info["status"] is None:
                    info["status"] = (c[2], c[3])
        elif c[0] == "truth":
            t = c[1]
            if t[0] == "op" and t[1] == "Eq" and (T.last_field(t[2]) == (VV, "value") or T.last_field(t[3]) == (VV, "value")):
                info["eq"] = c[2]
            if t[0] == "op" and t[1] in ("Ge", "Gt", "Le", "Lt") and (
                    T.last_field(t[2]) == (VV, "version") or T.last_field(t[3]) == (VV, "version")):
                info["stale"] = (t, c[2])
    return info


def feasible(row, dom=4):
    """False when the path condition contradicts the invariant 'stored versions <= max_version'
    for every small assignment (the stale branch of set_versioned_value on a local write)."""
    atoms = []
    for c in row.cond:
        if c[0] == "truth":
            oe.atoms_of(c[1], atoms)
    ver_atoms = [a for a in atoms if T.last_field(a) == (VV, "version")]
    other = [a for a in atoms if a not in ver_atoms and a != OLD_MAX]
    conds = [c for c in row.cond if c[0] == "truth" and not any(x in other for x in oe.atoms_of(c[1], []))]
    if not ver_atoms:
        return True
    import itertools
    for old in range(dom):
        for vals in itertools.product(range(0, old + 1), repeat=len(ver_atoms)):
            asg = {OLD_MAX: old}
            asg.update(dict(zip(ver_atoms, vals)))
            try:
                if all(oe.holds(c, asg) for c in conds):
                    return True
            except oe.NeedAtom:
                return True
    return False


def mutator_table(fx, fn):
    eng = Engine(fx, no_inline=listener_fns(fx))
    rows = eng.table(fn["id"], arg_terms={1: ("ptr", SELF, ())})
    return eng, rows


class _St:
    def __init__(self, store):
        self.store = store


def final(eng, row, field):
    return eng.read_rp(_St(row.store), SELF, (F(NS, field),))
