"""Extracted decision models shared by several properties (C14, C01, C02, C04, C09, C20):
the receiver's admission table, the receiver's apply effects and the sender's per-member
decision, each as *terms extracted from the facts* plus an evaluator over role atoms."""
from .core import sym, tables as T, orderenum as oe
from .core.sym import Engine, proj
from .core.anchors import AnchorLost, where
from .roles import Roles, NS, ND

F = lambda adt, name: ("f", adt, name)

RECV = ("S", "recv")
DELTA = ("S", "delta")


class ModelError(Exception):
    """the extracted table cannot be interpreted (reported as a violation by the caller)"""

    def __init__(self, key, msg, where=None):
        Exception.__init__(self, msg)
        self.key = key
        self.msg = msg
        self.where = where


def canon_recv(t):
    if t[0] == "proj" and t[2][0] == "f":
        b = t[1]
        if b == ("obj", RECV) and t[2][1] == NS:
            m = {"max_version": "rm", "last_gc_version": "rg"}.get(t[2][2])
            if m:
                return T.R(m)
        if b == ("obj", DELTA) and t[2][1] == ND:
            m = {"max_version": "dm", "last_gc_version": "dg", "from_version_excluded": "from"}.get(t[2][2])
            if m:
                return T.R(m)
    return None


RECV_ROLES = ["rg", "rm", "from", "dg", "dm"]


def variant_of(t):
    if t is not None and t[0] == "agg":
        return t[2]
    return None


class Admission:
    """role recv_admission: (rg, rm, from, dg, dm) -> DeltaStatus variant"""

    def __init__(self, fx, roles):
        self.fn = roles.recv_admission
        eng = Engine(fx)
        rows = eng.table(self.fn["id"], arg_terms={1: ("ptr", RECV, ()), 2: ("ptr", DELTA, ())})
        self.rows = [r for r in rows if r.exit == "return"]
        self.panics = [r for r in rows if r.exit == "panic"]
        self.table = T.Table(self.rows, canon_recv)
        known = {T.R(r) for r in RECV_ROLES}
        extra = [a for a in self.table.atoms() if a not in known]
        if extra:
            raise ModelError("recv_admission/unknown-input",
                             "the admission decision reads something other than the copy's and the delta's "
                             "frontier: %s" % ", ".join(sym.fmt(a) for a in extra[:4]), where(self.fn))
        for r in self.rows:
            if variant_of(r.ret) is None:
                raise ModelError("recv_admission/opaque-result", "admission returns a non-literal status: %s" % sym.fmt(r.ret),
                                 where(self.fn))
        self.variants = sorted({variant_of(r.ret) for r in self.rows})

    def asg(self, rg, rm, frm, dg, dm):
        return {T.R("rg"): rg, T.R("rm"): rm, T.R("from"): frm, T.R("dg"): dg, T.R("dm"): dm}

    def status(self, rg, rm, frm, dg, dm):
        sel = self.table.select(self.asg(rg, rm, frm, dg, dm))
        if len(sel) != 1:
            raise ModelError("recv_admission/not-a-function",
                             "%d rows of the admission table match (rg=%d rm=%d from=%d dg=%d dm=%d)" % (
                                 len(sel), rg, rm, frm, dg, dm), where(self.fn))
        return variant_of(sel[0].ret)

    def describe(self):
        out = []
        for r, cs in zip(self.table.rows, self.table.conds):
            out.append("%s  <=  %s" % (variant_of(r.ret), " & ".join(sym.fmt_cond(c) for c in cs) or "true"))
        return out


class _St:
    def __init__(self, store):
        self.store = store


class Apply:
    """role recv_apply: effects on the copy's frontier per admission status"""

    def __init__(self, fx, roles, no_inline=()):
        self.fn = roles.recv_apply
        self.fx = fx
        # listeners are irrelevant for the frontier; their dispatch is opaque
        trig = [f["id"] for f in fx.fns.values() if f.get("impl_self") in ("listener::Listeners", "listener::InnerListeners")]
        self.eng = Engine(fx, no_inline=set(trig) | set(no_inline))
        rows = self.eng.table(self.fn["id"], arg_terms={1: ("ptr", RECV, ()), 2: ("obj", DELTA), 3: ("obj", ("S", "now"))})
        self.rows = rows
        self.ret_rows = [r for r in rows if r.exit == "return"]
        self.panic_rows = [r for r in rows if r.exit == "panic"]
        self.backedge_rows = [r for r in rows if r.exit == "backedge"]
        self.table = T.Table(self.ret_rows, canon_recv)
        self._fin = {}

    def final(self, row, field):
        k = (id(row), field)
        if k not in self._fin:
            self._fin[k] = self._final(row, field)
        return self._fin[k]

    def _final(self, row, field):
        t = self.eng.read_rp(_St(row.store), RECV, (F(NS, field),))
        return T.rewrite(t, canon_recv)

    def maybe_rows(self, rows, conds_list, asg):
        out = []
        for r, cs in zip(rows, conds_list):
            ok = True
            for c in cs:
                try:
                    if not oe.holds(c, asg):
                        ok = False
                        break
                except oe.NeedAtom:
                    continue
            if ok:
                out.append(r)
        return out

    def effects(self, asg):
        """list of (row, status variant, g', m', wrote) for return rows compatible with asg"""
        out = []
        for r in self.maybe_rows(self.table.rows, self.table.conds, asg):
            g = self.final(r, "last_gc_version")
            m = self.final(r, "max_version")
            out.append((r, variant_of(r.ret) or r.ret, g, m))
        return out

    def recv_writes(self, row):
        return [e for e in row.events if e[0] == "write" and e[1] == RECV]


# ----------------------------------------------------------------------------- sender
CSROOT = ("S", "cs")
DIGEST = ("S", "digest")
SCHED = ("S", "sched")
STALE = "state::StaleNode"
NDIG = "digest::NodeDigest"


class Sender:
    """role compute_delta: per-member decision (offered?, from) and what is put in the delta"""

    def __init__(self, fx, roles):
        self.fx = fx
        self.roles = roles
        self.fn = roles.compute_delta
        ser = [roles.ser_new, roles.ser_add_node, roles.ser_add_kv, roles.ser_set_max, roles.ser_finish]
        self.ser = ser
        self.eng = Engine(fx, no_inline={f["id"] for f in ser})
        rows = self.eng.table(self.fn["id"], arg_terms={
            1: ("ptr", CSROOT, ()), 2: ("ptr", DIGEST, ()), 3: ("obj", ("S", "mtu")), 4: ("ptr", SCHED, ())})
        self.rows = rows
        new_id = roles.ser_new["id"]
        # body paths of the member loop itself; loops nested in inlined callees (e.g. a counting loop inside staleness_score) end at
        # the callee's back edge and are not member decisions
        self.member_rows = [r for r in rows if r.exit == "backedge" and not self._calls(r, new_id)
                            and (not isinstance(r.site, tuple) or fx.root_fn(r.site[0]) == fx.root_fn(self.fn["id"]) or r.site[0] in getattr(fx, "new_helpers", ()))]
        self.emit_rows = [r for r in rows if self._calls(r, new_id)]
        # a filtering adaptor in front of the loop reports a dropped element once per consumer step: identical rows are one row
        uniq, seen_rows = [], set()
        for r in self.member_rows:
            cl = [e[1] for e in r.calls()]
            nx = max([i for i, n in enumerate(cl) if n.endswith("::next")] or [-1])
            k = (tuple(sym.fmt_cond(c) for c in r.cond), tuple(cl[nx + 1:]),      # what the iteration does once it has its element
                 tuple((sym.fmt_root(e[1]), str(e[2]), sym.fmt(e[3])) for e in r.events if e[0] == "write"))
            if k not in seen_rows:
                seen_rows.add(k)
                uniq.append(r)
        self.member_rows = uniq
        if not self.member_rows:
            raise ModelError("compute_delta/no-member-loop", "no per-member loop found before the serializer is created",
                             where(self.fn))
        self._find_bases()
        self.table = T.Table(self.member_rows, self.canon)
        # a loop nested in the member body (e.g. a counting loop that replaced `.count()`) leaves "its iterator is exhausted" on the
        # path: always eventually true, not an input of the decision
        nt = self._next_term()
        self.table.conds = [[c for c in cs if not (c[0] == "variant" and c[3] and c[2] == "None" and c[1][0] == "call" and c[1][1].endswith("::next") and c[1] != nt
                                                   and c[1] != T.R("item"))]
                            for cs in self.table.conds]

    @staticmethod
    def _calls(row, fid):
        return [e for e in row.events if e[0] == "call" and e[1] == fid]

    def _find_bases(self):
        """the iterated copy and the peer's digest entry for the same member"""
        state_bases, dig_bases, get_calls = [], [], []
        for r in self.member_rows:
            terms = []
            for c in r.cond:
                terms.append(c[1])
            for e in r.events:
                if e[0] == "call":
                    terms.extend(e[2])
                    if sym.strip_all_generics(e[1]).endswith("::get") and e[2] and e[2][0] == ("ptr", DIGEST, (F("digest::Digest", "node_digests"),)):
                        if e[2] not in [g for g in get_calls]:
                            get_calls.append(e[2])
            for t in terms:
                for s in T.subterms(t):
                    lf = T.last_field(s) if s[0] == "proj" and s[2][0] == "f" else None
                    if lf and lf[0] == NS and lf[1] in ("max_version", "last_gc_version"):
                        if s[1] not in state_bases:
                            state_bases.append(s[1])
                    if lf and lf[0] == NDIG and lf[1] in ("max_version", "last_gc_version"):
                        if s[1] not in dig_bases:
                            dig_bases.append(s[1])
        if len(state_bases) != 1:
            raise ModelError("compute_delta/state-base", "the per-member decision reads NodeState frontiers of %d different "
                             "objects: %s" % (len(state_bases), [sym.fmt(b)[:80] for b in state_bases]), where(self.fn))
        if len(dig_bases) != 1:
            raise ModelError("compute_delta/digest-base", "the per-member decision reads NodeDigest entries of %d different "
                             "objects" % len(dig_bases), where(self.fn))
        if len(get_calls) != 1:
            raise ModelError("compute_delta/digest-lookup", "expected exactly one lookup in digest.node_digests per member, "
                             "found %d" % len(get_calls), where(self.fn))
        self.state_base = state_bases[0]
        self.dig_base = dig_bases[0]
        key = get_calls[0][1]
        # provenance: state = *(item.1), key = *(item.0) of the same iterator item; digest entry = *(get(..)@Some.0)
        sb = self.state_base
        ok = sb[0] == "obj" and sb[1][0] == "D" and key[0] == "ptr" and key[1][0] == "D"
        item_s = item_k = None
        if ok:
            ps, pk = sb[1][1], key[1][1]
            if ps[0] == "proj" and pk[0] == "proj" and ps[2] == F("<tuple>", "1") and pk[2] == F("<tuple>", "0"):
                item_s, item_k = ps[1], pk[1]
        if item_s is None or item_s != item_k:
            raise ModelError("compute_delta/pairing", "the digest entry looked up is not keyed by the id of the copy being "
                             "examined (state=%s key=%s)" % (sym.fmt(sb)[:120], sym.fmt(key)[:120]), where(self.fn))
        self.item = item_s
        db = self.dig_base
        good = db[0] == "obj" and db[1][0] == "D"
        if good:
            inner = db[1][1]  # payload of get(..)
            calls = [s for s in T.subterms(inner) if s[0] == "call" and sym.strip_all_generics(s[1]).endswith("::get")]
            good = len(calls) >= 1 and calls[0][2] == get_calls[0]
            self.get_term = calls[0] if calls else None
        if not good:
            raise ModelError("compute_delta/digest-entry", "the digest frontier is not read from the looked-up entry",
                             where(self.fn))
        # iterator over self.node_states
        its = [s for s in T.subterms(self.item) if s[0] == "call" and s[1].endswith("::next")]
        self.iter_ok = bool(its)

    def canon(self, t):
        if t[0] == "proj" and t[2][0] == "f":
            if t[1] == self.state_base and t[2][1] == NS:
                m = {"max_version": "sm", "last_gc_version": "sg"}.get(t[2][2])
                if m:
                    return T.R(m)
            if t[1] == self.dig_base and t[2][1] == NDIG:
                m = {"max_version": "rm", "last_gc_version": "rg"}.get(t[2][2])
                if m:
                    return T.R(m)
        if t == self.get_term:
            return T.R("entry")
        if t[0] == "call" and sym.strip_all_generics(t[1]).endswith("::contains") and t[2] and t[2][0] in (("ptr", SCHED, ()), ("obj", SCHED)):
            return T.R("scheduled")
        if t[0] == "call" and t[1].endswith("::next") and t == self._next_term():
            return T.R("item")
        return None

    def _next_term(self):
        for s in T.subterms(self.item):
            if s[0] == "call" and s[1].endswith("::next"):
                return s
        return None

    def asg(self, sg, sm, rg, rm, present, scheduled=False):
        return {T.R("sg"): sg, T.R("sm"): sm, T.R("rg"): rg, T.R("rm"): rm,
                ("discr", T.R("entry")): "Some" if present else "None",
                T.R("scheduled"): scheduled, ("discr", T.R("item")): "Some"}

    def stale_node(self, row):
        aggs = T.row_aggs(row, STALE)
        return aggs

    def decide(self, sg, sm, rg, rm, present, scheduled=False):
        """-> (offered, from, row)"""
        a = self.asg(sg, sm, rg, rm, present, scheduled)
        try:
            sel = self.table.select(a)
        except oe.NeedAtom as e:
            raise ModelError("compute_delta/unknown-input", "the per-member decision depends on %s" % sym.fmt(e.atom)[:160],
                             where(self.fn))
        if len(sel) != 1:
            raise ModelError("compute_delta/not-a-function", "%d rows match sg=%d sm=%d rg=%d rm=%d present=%s scheduled=%s" % (
                len(sel), sg, sm, rg, rm, present, scheduled), where(self.fn))
        row = sel[0]
        aggs = self.stale_node(row)
        if not aggs:
            return False, None, row
        if len(aggs) > 1:
            raise ModelError("compute_delta/double-offer", "a member is offered twice on one path", where(self.fn))
        frm = T.rewrite(T.field(aggs[0], "from_version_excluded"), self.canon)
        try:
            return True, oe.ev(frm, a), row
        except oe.NeedAtom as e:
            raise ModelError("compute_delta/from-term", "the start version depends on %s" % sym.fmt(e.atom)[:160], where(self.fn))

    def describe(self):
        out = []
        for r, cs in zip(self.table.rows, self.table.conds):
            aggs = self.stale_node(r)
            frm = sym.fmt(T.rewrite(T.field(aggs[0], "from_version_excluded"), self.canon)) if aggs else None
            out.append("%s  <=  %s" % ("offer(from=%s)" % frm if aggs else "skip",
                                       " & ".join(sym.fmt_cond(c)[:90] for c in cs) or "true"))
        return out


# ----------------------------------------------------------------------- process_message
class ProcessMessage:
    """table of Chitchat::process_message with its heavy callees kept as call events"""

    def __init__(self, fx, roles):
        self.fx = fx
        self.roles = roles
        self.fn = roles.process_message
        dig_len = [f["id"] for f in fx.fns.values() if f.get("impl_self") == "digest::Digest"
                   and f.get("impl_trait") == "serialize::Serializable" and f["id"].endswith("::serialized_len")]
        self.digest_len = dig_len[0] if dig_len else None
        self.keep = {
            "process_delta": roles.process_delta["id"],
            "report_heartbeats_in_digest": roles.report_heartbeats_in_digest["id"],
            "compute_delta": roles.compute_delta["id"],
            "update_self_heartbeat": roles.update_self_heartbeat["id"],
            "compute_digest": roles.compute_digest["id"],      # ClusterState level: the Chitchat-level forwarder is inlined, whatever its shape
            "scheduled": roles.scheduled_for_deletion_nodes["id"],
        }
        no_inline = set(self.keep.values()) | ({self.digest_len} if self.digest_len else set())
        self.eng = Engine(fx, no_inline=no_inline)
        all_rows = self.eng.table(self.fn["id"], arg_terms={1: ("ptr", ("S", "self"), ()), 2: ("obj", ("S", "msg"))})
        # process_message has no loop of its own on the pinned tree; a refactoring may add one (e.g. building the exclusion set
        # with a for loop): its body rows are kept apart, the arm rules look at the paths that leave the function
        self.loop_rows = [r for r in all_rows if r.exit == "backedge"]
        self.rows = [r for r in all_rows if r.exit != "backedge"]
        self.by_variant = {}
        for r in self.rows:
            v = None
            for c in r.cond:
                if c[0] == "variant" and c[1] == ("obj", ("S", "msg")) and c[3]:
                    v = c[2]
            self.by_variant.setdefault(v, []).append(r)

    def calls(self, row, role):
        fid = self.keep[role]
        return [e for e in row.events if e[0] == "call" and e[1] == fid]

    def index_of(self, row, ev):
        return row.events.index(ev)

    def ret_variant(self, row):
        """variant of the returned message (None for Option::None)"""
        t = row.ret
        if t is None or t[0] != "agg":
            return "?"
        if t[2] == "None":
            return None
        inner = T.field(t, "0")
        return variant_of(inner) or "?"


# ----------------------------------------------------------------------- report_heartbeat
class HeartbeatReport:
    """table of Chitchat::report_heartbeat with the accessors and the two sinks kept as calls"""

    def __init__(self, fx, roles):
        self.fx, self.roles = fx, roles
        self.fn = roles.report_heartbeat
        self.keep = {
            "try_set_heartbeat": roles.try_set_heartbeat["id"], "fd_report": roles.fd_report_heartbeat["id"],
            "create": roles.node_state_mut_or_init["id"], "lookup": roles.node_state_mut["id"],
            "memory": roles.last_heartbeat_if_deleted["id"],
        }
        self.eng = Engine(fx, no_inline=set(self.keep.values()), opaque_pure={self.keep["memory"]})
        self.rows = self.eng.table(self.fn["id"], arg_terms={
            1: ("ptr", ("S", "self"), ()), 2: ("ptr", ("S", "id"), ()), 3: ("obj", ("S", "hb"))})

    def calls(self, row, role):
        fid = self.keep[role]
        return [e for e in row.events if e[0] == "call" and e[1] == fid]

    def self_check(self, row):
        """polarity of `id == own id` on this path (True = is self), or None"""
        own = ("proj", ("proj", ("obj", ("S", "self")), ("f", "Chitchat", "config")), ("f", "configuration::ChitchatConfig", "chitchat_id"))
        for c in row.cond:
            if c[0] == "truth" and c[1][0] == "op" and c[1][1] in ("Eq", "Ne"):
                ops = (c[1][2], c[1][3])
                if ("obj", ("S", "id")) in ops and own in ops:
                    return (c[1][1] == "Eq") == c[2]
        return None


# ----------------------------------------------------------------------- liveness decision
class Liveness:
    """table of FailureDetector::update_node_liveness with phi() kept as a pure opaque call"""

    def __init__(self, fx, roles):
        self.fx, self.roles = fx, roles
        self.fn = roles.fd_update_node_liveness
        self.phi_id = roles.fd_phi["id"]
        self.reset_id = roles.sw_reset["id"]
        self.eng = Engine(fx, no_inline={self.phi_id, self.reset_id}, opaque_pure={self.phi_id})
        rows = self.eng.table(self.fn["id"], arg_terms={1: ("ptr", ("S", "self"), ()), 2: ("ptr", ("S", "id"), ())})
        self.rows = [r for r in rows if r.exit == "return"]
        self.other = [r for r in rows if r.exit != "return"]
        FDT = "failure_detector::FailureDetector"
        self.LIVE = ("ptr", ("S", "self"), (("f", FDT, "live_nodes"),))
        self.DEAD = ("ptr", ("S", "self"), (("f", FDT, "dead_nodes"),))
        self.THR = ("proj", ("proj", ("obj", ("S", "self")), ("f", FDT, "config")),
                    ("f", "failure_detector::FailureDetectorConfig", "phi_threshold"))

    def set_ops(self, row):
        """(live inserted, live removed, dead inserted, dead removed) call lists"""
        li, lr, di, dr = [], [], [], []
        for e in row.events:
            if e[0] != "call" or not e[2]:
                continue
            nm = sym.strip_all_generics(e[1]).split("::")[-1]
            if e[2][0] == self.LIVE:
                (li if nm == "insert" else lr if nm == "remove" else []).append(e)
            if e[2][0] == self.DEAD:
                (di if nm == "insert" else dr if nm == "remove" else []).append(e)
        return li, lr, di, dr

    def phi_terms(self):
        out = []
        for r in self.rows:
            for c in r.cond:
                for s in T.subterms(c[1]):
                    if s[0] == "call" and s[1] == self.phi_id and s not in out:
                        out.append(s)
        return out


# ----------------------------------------------------------------------- update_nodes_liveness
class NodesLiveness:
    def __init__(self, fx, roles):
        self.fx, self.roles = fx, roles
        self.fn = roles.update_nodes_liveness
        live_nodes = [f for f in fx.methods_of("Chitchat") if f.get("inputs") == ["&Chitchat"] and f["id"].endswith("::live_nodes")]
        node_state = [f for f in fx.methods_of("Chitchat") if f.get("inputs") == ["&Chitchat", "&types::ChitchatId"]
                      and f.get("output") == "std::option::Option<&state::NodeState>"]
        self.live_nodes_fn = live_nodes[0] if live_nodes else None
        self.node_state_fn = node_state[0] if node_state else None
        self.keep = {"update_node_liveness": roles.fd_update_node_liveness["id"], "remove_node": roles.remove_node["id"],
                     "garbage_collect": roles.fd_garbage_collect["id"]}
        if self.live_nodes_fn:
            self.keep["live_nodes"] = self.live_nodes_fn["id"]
        if self.node_state_fn:
            self.keep["node_state"] = self.node_state_fn["id"]
        self.eng = Engine(fx, no_inline=set(self.keep.values()), opaque_pure={self.keep.get("live_nodes"), self.keep.get("node_state")})
        self.rows = self.eng.table(self.fn["id"], arg_terms={1: ("ptr", ("S", "self"), ())})
        self.OWN = ("proj", ("proj", ("obj", ("S", "self")), ("f", "Chitchat", "config")), ("f", "configuration::ChitchatConfig", "chitchat_id"))
        self.PREV = ("proj", ("obj", ("S", "self")), ("f", "Chitchat", "previous_live_nodes"))

    def calls(self, row, role):
        fid = self.keep.get(role)
        return [e for e in row.events if e[0] == "call" and e[1] == fid]

    def not_self_guard(self, row, idterm):
        """the path condition contains `idterm != own id` (True) / `==` (False) / None"""
        forms = [idterm]
        if idterm[0] == "ptr" and idterm[1][0] == "D" and idterm[2] == ():
            forms.append(idterm[1][1])
            forms.append(("obj", idterm[1]))
        for f in forms[1:]:
            r = self.not_self_guard(row, f)
            if r is not None:
                return r
        for c in row.cond:
            if c[0] == "truth" and c[1][0] == "op" and c[1][1] in ("Eq", "Ne"):
                ops = (c[1][2], c[1][3])
                if self.OWN in ops and idterm in ops:
                    return (c[1][1] == "Ne") == c[2]
        return None
