"""RD.1 — structural identity.  The decision tables treat `==`, `<`, hashing, `clone()` and `default()` of the crate's own
value types as the structural operations a `#[derive]` produces (an opaque comparison of two terms is "equal iff the terms are
equal"; a clone is the value).  That is only true while those impls ARE derived.  A hand-written `PartialEq for ChitchatId`
that ignores the generation, a `Clone for VersionedValue` that resets the status, an `Ord for Heartbeat` on something else
would change every table silently.  For each (type, trait) a property leans on: the impl exists and every method of it comes
from a derive expansion."""
from .core import inventory as inv

CH_ID = "types::ChitchatId"
HB = "types::Heartbeat"
WANTS = {
    "id-eq": [(CH_ID, "std::cmp::PartialEq"), (CH_ID, "std::cmp::Eq")],
    "id-hash": [(CH_ID, "std::hash::Hash")],
    "id-ord": [(CH_ID, "std::cmp::Ord"), (CH_ID, "std::cmp::PartialOrd")],
    "id-clone": [(CH_ID, "std::clone::Clone")],
    "hb-ord": [(HB, "std::cmp::PartialOrd"), (HB, "std::cmp::Ord"), (HB, "std::cmp::PartialEq")],
    "hb-default": [(HB, "std::default::Default")],
    "hb-clone": [(HB, "std::clone::Clone")],
    "vv-clone": [("types::VersionedValue", "std::clone::Clone"), ("types::DeletionStatus", "std::clone::Clone")],
    "ns-clone": [("state::NodeState", "std::clone::Clone")],
    "status-eq": [("state::DeltaStatus", "std::cmp::PartialEq")],
    "digest-clone": [("digest::NodeDigest", "std::clone::Clone")],
    "kvm-clone": [("types::KeyValueMutation", "std::clone::Clone")],
    "dsm-eq": [("types::DeletionStatusMutation", "std::cmp::PartialEq")],
}


def check(ctx, rep, P, rule, groups):
    rep.rule(rule, "structural identity: the comparison / hashing / cloning impls the tables treat as structural are #[derive]d")
    fx = ctx.fx
    n = 0
    for g in groups:
        for ty, trait in WANTS[g]:
            ms = [f for f in fx.fns.values() if f.get("impl_self") == ty and (f.get("impl_trait") or "") == trait and f["kind"] in ("method", "fn")]
            n += 1
            if not ms:
                rep.obligation(False, "%s/%s/impl-missing/%s/%s" % (P, rule, ty.split("::")[-1], trait.split("::")[-1]),
                               "%s no longer implements %s (the rules of this property compare / copy it structurally)" % (ty, trait), None)
                continue
            manual = [f["id"] for f in ms if not inv.is_derived(fx, f["id"])]
            f0 = ms[0]
            rep.obligation(not manual, "%s/%s/hand-written/%s/%s" % (P, rule, ty.split("::")[-1], trait.split("::")[-1]),
                           "%s for %s is hand-written (%s): the tables model it as the structural operation" % (trait, ty, manual),
                           "%s:%s (%s)" % (f0["span"]["file"], f0["span"]["line"], f0["id"]),
                           sample="%s: %s derived" % (ty.split("::")[-1], trait.split("::")[-1]))
    rep.floor("identity-impls", n, len([1 for g in groups for _ in WANTS[g]]))
    rep.instance(n)
