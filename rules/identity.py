"""RD.1 — structural identity.  The decision tables treat `==`, `<`, hashing, `clone()` and `default()` of the crate's own
value types as the structural operations a `#[derive]` produces (an opaque comparison of two terms is "equal iff the terms are
equal"; a clone is the value).  That is only true while those impls ARE derived.  A hand-written `PartialEq for ChitchatId`
that ignores the generation, a `Clone for VersionedValue` that resets the status, an `Ord for Heartbeat` on something else
would change every table silently.  For each (type, trait) a property leans on: the impl exists and every method of it comes
from a derive expansion."""
from .core import inventory as inv

CH_ID = "types::ChitchatId"
HB = "types::Heartbeat"
WANTS = {
    "id-eq": [(CH_ID, "std::cmp::PartialEq"), (CH_ID, "std::cmp::Eq")],
    "id-hash": [(CH_ID, "std::hash::Hash")],
    "id-ord": [(CH_ID, "std::cmp::Ord"), (CH_ID, "std::cmp::PartialOrd")],
    "id-clone": [(CH_ID, "std::clone::Clone")],
    "hb-ord": [(HB, "std::cmp::PartialOrd"), (HB, "std::cmp::Ord"), (HB, "std::cmp::PartialEq")],
    "hb-default": [(HB, "std::default::Default")],
    "hb-clone": [(HB, "std::clone::Clone")],
    "vv-clone": [("types::VersionedValue", "std::clone::Clone"), ("types::DeletionStatus", "std::clone::Clone")],
    "ns-clone": [("state::NodeState", "std::clone::Clone")],
    "status-eq": [("state::DeltaStatus", "std::cmp::PartialEq")],
    "digest-clone": [("digest::NodeDigest", "std::clone::Clone")],
    "kvm-clone": [("types::KeyValueMutation", "std::clone::Clone")],
    "dsm-eq": [("types::DeletionStatusMutation", "std::cmp::PartialEq")],
}


def check(ctx, rep, P, rule, groups):
    rep.rule(rule, "structural identity: the comparison / hashing / cloning impls the tables treat as structural are #[derive]d")
    fx = ctx.fx
    n = 0
    for g in groups:
        for ty, trait in WANTS[g]:
            ms = [f for f in fx.fns.values() if f.get("impl_self") == ty and (f.get("impl_trait") or "") == trait and f["kind"] in ("method", "fn")]
            n += 1
            if not ms:
                rep.obligation(False, "%s/%s/impl-missing/%s/%s" % (P, rule, ty.split("::")[-1], trait.split("::")[-1]),
                               "%s no longer implements %s (the rules of this property compare / copy it structurally)" % (ty, trait), None)
                continue
            manual = [f["id"] for f in ms if not inv.is_derived(fx, f["id"])]
            f0 = ms[0]
            rep.obligation(not manual, "%s/%s/hand-written/%s/%s" % (P, rule, ty.split("::")[-1], trait.split("::")[-1]),
                           "%s for %s is hand-written (%s): the tables model it as the structural operation" % (trait, ty, manual),
                           "%s:%s (%s)" % (f0["span"]["file"], f0["span"]["line"], f0["id"]),
                           sample="%s: %s derived" % (ty.split("::")[-1], trait.split("::")[-1]))
    rep.floor("identity-impls", n, len([1 for g in groups for _ in WANTS[g]]))
    rep.instance(n)


# RD.2 — the membership / state containers are keyed by the full member id (or the full key string).  The tables model a map
# lookup as "the entry of that id"; a map keyed by something coarser (node_id, gossip address) merges members.
KEYED = {
    "fd-sets": [("failure_detector::FailureDetector", "node_samples", "types::ChitchatId"), ("failure_detector::FailureDetector", "live_nodes", "types::ChitchatId"),
                ("failure_detector::FailureDetector", "dead_nodes", "types::ChitchatId")],
    "cluster": [("state::ClusterState", "node_states", "types::ChitchatId"), ("state::ClusterState", "garbage_collected_nodes", "types::ChitchatId")],
    "watch": [("Chitchat", "previous_live_nodes", "types::ChitchatId"), ("Chitchat", "live_nodes_watcher_tx", "types::ChitchatId")],
    "kv": [("state::NodeState", "key_values", "std::string::String")],
    "digest": [("digest::Digest", "node_digests", "types::ChitchatId")],
    "listeners": [("listener::InnerListeners", "listeners", "std::string::String")],
    "builder": [("delta::DeltaBuilder", "existing_nodes", "types::ChitchatId")],
}


def _first_generic_arg(ty):
    """key type of Map<K, V> / Set<K> / LruCache<K, V> / Sender<Map<K, V>>: first type argument of the innermost-first container"""
    i = ty.find("<")
    if i < 0:
        return None
    depth, j, start = 0, i, i + 1
    while j < len(ty):
        c = ty[j]
        if c == "<":
            depth += 1
        elif c == ">":
            depth -= 1
            if depth == 0:
                return ty[start:j].strip()
        elif c == "," and depth == 1:
            return ty[start:j].strip()
        j += 1
    return None


def check_keys(ctx, rep, P, rule, groups):
    rep.rule(rule, "container key types: the membership / state maps are keyed by the full member id (key-values and listeners by the full string)")
    fx = ctx.fx
    n = 0
    for g in groups:
        for adt, field, want in KEYED[g]:
            a = fx.adts.get(adt)
            ty = None
            if a:
                for v in a["variants"]:
                    for f in v["fields"]:
                        if f["name"] == field:
                            ty = f.get("ty")
            n += 1
            if ty is None:
                rep.obligation(False, "%s/%s/anchor-lost/%s.%s" % (P, rule, adt.split("::")[-1], field), "field %s.%s not found" % (adt, field), None)
                continue
            k = _first_generic_arg(ty)
            while k and k.startswith(("std::collections::", "tokio::sync::")) and "<" in k:   # Sender<BTreeMap<K, V>>
                k = _first_generic_arg(k)
            rep.obligation(k == want, "%s/%s/key-type/%s.%s" % (P, rule, adt.split("::")[-1], field),
                           "%s.%s is keyed by %s (type %s); the rules model it as keyed by %s" % (adt, field, k, ty, want), None,
                           sample="%s.%s keyed by %s" % (adt.split("::")[-1], field, want.split("::")[-1]))
    rep.floor("keyed-containers", n, len([1 for g in groups for _ in KEYED[g]]))
    rep.instance(n)
