"""Lossy-adaptor inventory (rule RA.1, run after the rules of every property).

The decision tables cut loops (one symbolic iteration, havoc of what the body writes): a rule that says "every element is
visited / offered / stored" leans on the iteration source being what was reviewed.  An iterator adaptor or collection
operation that silently DROPS elements (filter, take_while, skip, take, retain, drain, truncate, pop ...) inserted between
the collection and the loop does not change the shape the rules look at.  So, for every function body the engines of this
property walked, the number of lossy operations of each kind must not exceed what was read and confirmed on the pinned tree
(table below, keyed by impl type + signature so that a rename is not an alarm).  Only additions are reported: a confirmed
filter that disappears changes the tables themselves and is judged by the property's own rules."""
from .core import sym, cfg as cfgmod

ITER_LOSSY = {"filter", "filter_map", "take", "take_while", "skip", "skip_while", "step_by", "map_while", "find", "find_map", "nth", "last",
              "flatten", "flat_map", "zip", "rev", "min_by_key", "max_by_key", "min", "max", "dedup", "next_if", "next_if_eq"}
COLL_LOSSY = {"retain", "retain_mut", "drain", "truncate", "pop", "pop_first", "pop_last", "split_off", "dedup", "dedup_by_key", "clear", "swap_remove"}


def sig_key(fx, fid):
    f = fx.fns[fx.root_fn(fid)]
    owner = f.get("impl_self") or "::".join(f["id"].split("::")[:-1])
    if f.get("impl_trait"):
        owner += " as " + f["impl_trait"]
    return "%s | (%s) -> %s" % (owner, ", ".join(f.get("inputs") or []), f.get("output"))


def confirmed_for(fx, conf, fid):
    """confirmed operations of a function: by owner + signature, or, when a private function's signature changed, by the
    signature the pinned tree has under the same id"""
    key = sig_key(fx, fid)
    if key in conf:
        return conf[key]
    from .core import facts as _facts
    ref = _facts._fnref()
    rid = fx.root_fn(fid)
    if rid in ref and not fx.fns[rid].get("exported"):
        return conf.get(ref[rid], {})
    return {}


_CG = {}


def neighbour_shortfall(fx, conf, fid, kind):
    from .core import callgraph
    cg = _CG.get(id(fx))
    if cg is None:
        cg = _CG[id(fx)] = callgraph.CallGraph(fx)
    rid = fx.root_fn(fid)
    mine = {f for f in fx.fns if fx.root_fn(f) == rid}
    neigh = set()
    for f in mine:
        neigh |= {fx.root_fn(t) for t in cg.edges.get(f, ()) if t in fx.fns}
    for g, es in cg.edges.items():
        if es & mine:
            neigh.add(fx.root_fn(g))
    neigh.discard(rid)
    short = 0
    for g in sorted(neigh):
        a = confirmed_for(fx, conf, g).get(kind, 0)
        a = a.get("count", 0) if isinstance(a, dict) else a
        have = len([1 for k, _ in lossy_casts(fx, g) if k == kind])
        short += max(0, a - have)
    return short


def lossy_calls(fx, fid):
    """[(kind, line)] of lossy operations in the body of fid and of its closures"""
    out = []
    ids = [fid] + [c for c in fx.fns if c != fid and fx.root_fn(c) == fid]
    for i in ids:
        f = fx.fns[i]
        for b in f.get("blocks") or []:
            t = b.get("term") or {}
            if t.get("k") != "call" or b.get("cleanup"):
                continue
            c = cfgmod.term_callee(t)
            if not c:
                continue
            declared, raw = c[0] or "", (c[1] or c[0])
            if raw in fx.fns:
                continue
            nm = sym.strip_all_generics(raw).split("::")[-1]
            d = sym.strip_all_generics(declared)
            if d.startswith("std::iter::Iterator::") and nm in ITER_LOSSY:
                out.append(("Iterator::" + nm, t.get("fn_span", t.get("span", {})).get("line")))
            elif nm in COLL_LOSSY and ("std::vec::Vec" in raw or "std::collections::" in raw or "lru::" in raw or "std::string::String" in raw):
                ty = "Vec" if "std::vec::Vec" in raw else "String" if "std::string::String" in raw else "Lru" if "lru::" in raw else raw.split("::")[2] if raw.startswith("std::collections::") else "coll"
                out.append(("%s::%s" % (ty, nm), t.get("fn_span", t.get("span", {})).get("line")))
    return out


WIDTH = {"u8": 8, "u16": 16, "u32": 32, "u64": 64, "usize": 64, "i8": 8, "i16": 16, "i32": 32, "i64": 64, "isize": 64, "u128": 128, "i128": 128,
         "f32": 32, "f64": 64, "bool": 1, "char": 32}


def lossy_casts(fx, fid):
    """[(kind, line)] of `as` casts that can lose information (narrowing, or integer <-> float) in fid and its closures"""
    out = []
    ids = [fid] + [c for c in fx.fns if c != fid and fx.root_fn(c) == fid]
    for i in ids:
        for b in fx.fns[i].get("blocks") or []:
            if b.get("cleanup"):
                continue
            for st in b["stmts"]:
                if st.get("k") != "assign" or st["rv"].get("k") != "cast" or st["span"].get("macros"):
                    continue
                rv = st["rv"]
                op = rv.get("op") or {}
                frm = op["place"].get("ty") if op.get("k") in ("move", "copy") else op.get("ty")
                to = rv.get("ty")
                if to in WIDTH and frm in WIDTH and (WIDTH[to] < WIDTH[frm] or (to[0] == "f") != (frm[0] == "f") or (to[0] in "iu" and frm[0] in "iu" and to[0] != frm[0] and WIDTH[to] <= WIDTH[frm])):
                    out.append(("cast %s->%s" % (frm, to), st["span"].get("line")))
    return out


def early_exits(fx, fid):
    """number of ways a loop of fid (or of its closures) can be left other than by exhausting its iterator / failing its
    condition: CFG edges from a loop body to a block outside it, minus the one natural exit per loop (`break`, `return` and
    `?` inside a loop all count)"""
    n = 0
    ids = [fid] + [c for c in fx.fns if c != fid and fx.root_fn(c) == fid]
    for i in ids:
        f = fx.fns[i]
        if not f.get("blocks"):
            continue
        g = cfgmod.CFG(f)
        for head, body, backs in g.loops:
            body = set(body) | {head}
            exits = set()
            for b in body:
                if f["blocks"][b].get("cleanup"):
                    continue
                for _lbl, t in cfgmod.succs(f["blocks"][b]):
                    if t not in body and not f["blocks"][t].get("cleanup") and f["blocks"][t]["term"]["k"] != "unreachable":
                        exits.add((b, t))
            n += max(0, len(exits) - 1)
    return n


# confirmed on the pinned tree by reading each site: signature key -> {operation: count}
CONFIRMED = {}


def load_confirmed():
    import json, os
    p = os.path.join(os.path.dirname(os.path.abspath(__file__)), "adaptors_confirmed.json")
    return json.load(open(p))["confirmed"]


def check(ctx, rep, P, walked):
    r = rep.rule("RA.1", "lossy-adaptor inventory: in every body this property's engines walked, no element-dropping iterator adaptor / "
                         "collection operation beyond the confirmed ones")
    fx = ctx.fx
    conf = load_confirmed()
    roots = sorted({fx.root_fn(f) for f in walked if f in fx.fns})
    nh = getattr(fx, "new_helpers", set())
    helper_calls = {}
    for h in sorted(nh):
        hc = lossy_calls(fx, h) + lossy_casts(fx, h)
        for owner in fx.attributed(h):
            helper_calls.setdefault(owner, []).extend(hc)
    roots = [r for r in roots if r not in nh]
    n_sites = 0
    for fid in roots:
        calls = lossy_calls(fx, fid) + lossy_casts(fx, fid) + helper_calls.get(fid, [])
        ee = early_exits(fx, fid) + sum(early_exits(fx, h) for h in nh if fid in fx.attributed(h))
        ee += len({cid for (froot, fkind, cid) in sym.FUSED_ADAPTORS if fkind == "Iterator::take_while" and (
            froot == fid or froot in [h for h in nh if fid in fx.attributed(h)])})
        calls = calls + [("early-exit", None)] * ee
        if not calls:
            continue
        allowed = confirmed_for(fx, conf, fid)
        counts = {}
        for kind, line in calls:
            counts[kind] = counts.get(kind, 0) + 1
        fused = {}
        for (froot, fkind, cid) in sym.FUSED_ADAPTORS:
            if froot == fid or froot in [h for h in nh if fid in fx.attributed(h)]:
                fused.setdefault(fkind, set()).add(cid)
        for kind, n in sorted(counts.items()):
            n_sites += n
            n -= len(fused.get(kind, ()))       # modelled element by element by the engine (iterator fusion)
            lim = allowed.get(kind, {}).get("count", 0) if isinstance(allowed.get(kind), dict) else allowed.get(kind, 0)
            if n > lim and kind.startswith("cast "):
                # the same conversion moved across a call edge (a caller now computes what its callee computed, or the
                # reverse): an excess here is covered by an equal shortfall in the functions it calls / that call it
                lim += neighbour_shortfall(fx, conf, fid, kind)
            lines = [l for k, l in calls if k == kind]
            f = fx.fns[fid]
            rep.obligation(n <= lim, "%s/RA.1/unreviewed-lossy-adaptor/%s/%s" % (P, fid.split("::")[-1] if not fid.startswith("<") else fid, kind),
                           "%s has %d %s operation(s) (lines %s); %d confirmed: an element-dropping adaptor / information-losing cast the rules of this property do not model" % (
                               fid, n, kind, lines, lim), "%s:%s (%s)" % (f["span"]["file"], lines[0], fid),
                           sample="%s: %d x %s (confirmed)" % (fid.split("::")[-1], n, kind))
    rep.count("walked-bodies", len(roots))
    rep.count("lossy-sites", n_sites)
    rep.instance(len(roots))
