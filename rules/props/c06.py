"""C06 — local key-value reads, deletes, TTL and tombstone GC (DESIGN §3 C06)."""
import itertools
from fractions import Fraction
from ..core import sym, tables as T, orderenum as oe, callgraph
from ..core.anchors import where, AnchorLost
from ..core import anchors as A
from ..roles import Roles, NS
from .. import kv
from ..kv import VV, F

LEVEL = "other"
EXPLANATION = (
    "Decision tables extracted from MIR, compared with the specified tables for every variant/ordering: (R06.1) status tables "
    "is_deleted / time_of_start_scheduled_for_deletion / scheduled_for_deletion / into_status; (R06.2) every public filtered "
    "read of NodeState passes the visibility test (get returns Some iff present and not Deleted; the filter closures of "
    "key_values/iter_prefix keep exactly the non-Deleted entries; iter_prefix ranges from Included(prefix) and is cut by "
    "starts_with(prefix); num_key_values/contains_key derive from those); (R06.3) the GC retain predicate removes exactly the "
    "marked entries with now >= t + grace (boundary included), folds max(version, acc) from the current watermark on every "
    "removal path and stores it as the new watermark; (R06.4) effects of delete / delete_after_ttl / set_with_ttl.")
TRUSTED = ["BTreeMap::retain/range/get semantics; Iterator adaptor semantics (filter, take_while, map, count)"]
ASSUMPTIONS = ["equality with a reference map over operation SEQUENCES is not checked (composition of the per-operation tables with "
               "BTreeMap semantics)", "tokio::time::Instant arithmetic is exact"]

DS = "types::DeletionStatus"
DSM = "types::DeletionStatusMutation"


def run(ctx):
    rep = ctx.report
    fx = ctx.fx
    roles = Roles(fx)
    r06_1(ctx, rep, roles)
    r06_2(ctx, rep, roles)
    r06_3(ctx, rep, roles)
    r06_4(ctx, rep, roles)
    # which writes are no-ops (same value AND same status) is part of the local model too: a TTL-marked key that is set again
    # with the same value must become a plain Set entry
    from . import c04
    c04.r04_1(ctx, rep, roles)
    ctx.report.rules[-1].id = "R06.5(R04.1)"
    from .. import wrappers
    wrappers.gc_chain(ctx, rep, roles, "C06", "R06.6")
    wrappers.contains_key(ctx, rep, roles, "C06", "R06.7")
    wrappers.state_readers(ctx, rep, roles, "C06", "R06.8")
    from .. import identity
    identity.check_keys(ctx, rep, "C06", "R06.9", ["kv"])


def variant_table(fx, fn, self_name="self", variants=None):
    """rows of a match-only function: {variant name: [return terms]}.  A row can select its variant positively
    (`match x { V => .. }`) or negatively (`matches!(x, V)` false, `_ =>` arms): with the list of all variants a negative
    row is filed under every variant it does not exclude."""
    eng = sym.Engine(fx)
    rows = eng.table(fn["id"])
    out = {}
    for r in rows:
        if r.exit != "return":
            continue
        v = None
        excluded = set()
        for c in r.cond:
            if c[0] == "variant" and c[3]:
                v = c[2]
            elif c[0] == "variant" and not c[3]:
                excluded |= set(c[2]) if isinstance(c[2], (tuple, list)) else {c[2]}
        if v is None and excluded and variants:
            for w in variants:
                if w not in excluded:
                    out.setdefault(w, []).append(r.ret)
            continue
        out.setdefault(v, []).append(r.ret)
    return out


def r06_1(ctx, rep, roles):
    r = rep.rule("R06.1", "status tables: is_deleted, time_of_start_scheduled_for_deletion, scheduled_for_deletion, into_status")
    fx = ctx.fx
    f_isdel = A.method(fx, "is_deleted", VV, ["&types::VersionedValue"], "bool")
    f_time = A.method(fx, "time_of_start", DS, ["&types::DeletionStatus"], "std::option::Option<tokio::time::Instant>")
    f_sched = A.method(fx, "scheduled_for_deletion", DSM, ["&types::DeletionStatusMutation"], "bool")
    f_into = A.method(fx, "into_status", DSM, ["types::DeletionStatusMutation", "tokio::time::Instant"], DS)
    specs = [
        (f_isdel, {"Set": sym.FALSE, "Deleted": sym.TRUE, "DeleteAfterTtl": sym.FALSE}, "is_deleted"),
        (f_sched, {"Set": sym.FALSE, "Delete": sym.TRUE, "DeleteAfterTtl": sym.TRUE}, "scheduled_for_deletion"),
    ]
    for fn, spec, nm in specs:
        rep.anchor(nm, where(fn))
        tbl = variant_table(fx, fn, variants=list(spec))
        for v, want in spec.items():
            got = tbl.get(v)
            rep.obligation(got == [want], "C06/R06.1/%s/%s" % (nm, v), "%s(%s) = %s, expected %s" % (
                nm, v, [sym.fmt(g) for g in got or []], sym.fmt(want)), where(fn), sample="%s(%s) = %s" % (nm, v, sym.fmt(want)))
        rep.instance(len(spec))
    # time_of_start: Set -> None, others Some(payload)
    tbl = variant_table(fx, f_time, variants=["Set", "Deleted", "DeleteAfterTtl"])
    rep.anchor("time_of_start_scheduled_for_deletion", where(f_time))
    for v in ("Set", "Deleted", "DeleteAfterTtl"):
        got = tbl.get(v) or []
        if v == "Set":
            ok = len(got) == 1 and sym.is_none(got[0])
        else:
            ok = len(got) == 1 and sym.is_some(got[0]) and got[0][3][0][1][0] == "proj" and ("v", v) in [s[2] for s in T.subterms(got[0][3][0][1]) if s[0] == "proj"]
        rep.obligation(ok, "C06/R06.1/time_of_start/%s" % v, "time_of_start_scheduled_for_deletion(%s) = %s" % (v, [sym.fmt(g) for g in got]),
                       where(f_time), sample="time_of_start(%s) = %s" % (v, "None" if v == "Set" else "Some(instant carried by the status)"))
    # into_status
    tbl = variant_table(fx, f_into, variants=["Set", "Delete", "DeleteAfterTtl"])
    rep.anchor("into_status", where(f_into))
    want = {"Set": "Set", "Delete": "Deleted", "DeleteAfterTtl": "DeleteAfterTtl"}
    for v, w in want.items():
        got = tbl.get(v) or []
        ok = len(got) == 1 and got[0][0] == "agg" and got[0][2] == w
        if ok and w != "Set":
            ok = got[0][3] and got[0][3][0][1] == ("obj", ("S", "now"))
        rep.obligation(ok, "C06/R06.1/into_status/%s" % v, "into_status(%s) = %s" % (v, [sym.fmt(g) for g in got]), where(f_into),
                       sample="into_status(%s, now) = %s" % (v, w + ("(now)" if w != "Set" else "")))
    rep.instance(6)


def filter_closures(fx, fid):
    """closure values handed to Iterator::filter / take_while in fn `fid` (via its table)"""
    eng = sym.Engine(fx)
    rows = eng.table(fid)
    out = {"filter": [], "take_while": [], "range": [], "rows": rows, "eng": eng}
    for r in rows:
        for e in r.calls():
            nm = sym.strip_all_generics(e[1]).split("::")[-1]
            if nm in ("filter", "take_while"):
                for a in e[2]:
                    if a[0] == "closure" and a not in out[nm]:
                        out[nm].append(a)
            if nm == "range":
                out["range"].append(e)
    return out


def closure_variant_table(fx, eng, clo):
    """apply a predicate closure to a symbolic entry and tabulate by status variant"""
    st = sym.St()
    res = {}
    arg = ("ptr", ("S", "entry"), ())
    for s2, ret in sym.call_closure(eng, st, clo, [arg], 0, ("closure", 0)):
        v = None
        excluded = set()
        for c in s2.cond:
            if c[0] == "variant" and c[3] and T.last_field(c[1]) == (VV, "status"):
                v = c[2]
            elif c[0] == "variant" and not c[3] and T.last_field(c[1]) == (VV, "status"):
                excluded |= set(c[2]) if isinstance(c[2], (tuple, list)) else {c[2]}
        if v is None and excluded:
            for w in kv.STATUS_VARIANTS:
                if w not in excluded:
                    res.setdefault(w, []).append(ret)
            continue
        res.setdefault(v, []).append(ret)
    return res


READERS_FILTERED = ("key_values", "iter_prefix", "get", "contains_key", "num_key_values")
READERS_RAW = {"key_values_including_deleted": "documented: 'also returns keys marked for deletion'",
               "get_versioned": "documented: 'if the key is tombstoned, this method will still return the versioned value'"}


def r06_2(ctx, rep, roles):
    r = rep.rule("R06.2", "every filtered public read of NodeState passes the visibility test")
    fx = ctx.fx
    cg = callgraph.CallGraph(fx)
    f_isdel = A.method(fx, "is_deleted", VV, ["&types::VersionedValue"], "bool")
    # public &self methods of NodeState that can reach key_values
    readers = []
    for f in fx.methods_of(NS):
        if f.get("impl_trait") or f.get("vis") != "pub" or not f.get("inputs") or not f["inputs"][0].replace("'a ", "") == "&state::NodeState":
            continue
        reach = cg.reachable([f["id"]])
        touches = False
        for g in reach:
            for b in fx.fns[g]["blocks"]:
                for s in b["stmts"]:
                    if s["k"] == "assign" and "place" in s["rv"] and any(
                            e["k"] == "field" and e.get("adt") == NS and e.get("name") == "key_values" for e in s["rv"]["place"]["proj"]):
                        touches = True
        if touches:
            readers.append((f, reach))
    names = set()
    for f, reach in readers:
        nm = f["id"].split("::")[-1]
        names.add(nm)
        if nm in READERS_RAW:
            rep.sample("%s: raw by contract (%s)" % (nm, READERS_RAW[nm]))
            continue
        rep.obligation(f_isdel["id"] in reach, "C06/R06.2/unfiltered-read/%s" % nm,
                       "public read %s reaches the key-value map without consulting is_deleted" % f["id"], where(f),
                       sample="%s reaches is_deleted" % nm)
    rep.floor("public-readers", len(readers), 6)
    for need in READERS_FILTERED:
        rep.obligation(need in names, "C06/R06.2/reader-missing/%s" % need, "public read %s not found" % need)
    # get: Some iff present and not Deleted, payload = stored value
    byname = {f["id"].split("::")[-1]: f for f, _ in readers}
    g = byname.get("get")
    if g:
        eng = sym.Engine(fx)
        for row in eng.table(g["id"]):
            if row.exit != "return":
                continue
            info = kv.cond_info(row)
            present = info["present"]
            st = info["status"]
            visible = present is True and kv.status_visible(info)
            is_some = sym.is_some(row.ret)
            rep.obligation(is_some == visible and (is_some or sym.is_none(row.ret)), "C06/R06.2/get/table",
                           "get returns %s when present=%s status=%s" % (sym.fmt(row.ret)[:60], present, st), where(g),
                           sample="get: present=%s status=%s -> %s" % (present, st and st[0], "Some" if is_some else "None"))
            if is_some:
                rep.obligation(T.mentions_field(row.ret, VV, "value"), "C06/R06.2/get/value", "get does not return the stored value", where(g))
    # filters of the iterator readers
    for nm in ("key_values", "iter_prefix"):
        f = byname.get(nm)
        if not f:
            continue
        fc = filter_closures(fx, f["id"])
        ok_any = False
        for clo in fc["filter"]:
            tbl = closure_variant_table(fx, fc["eng"], clo)
            want = {"Set": [sym.TRUE], "Deleted": [sym.FALSE], "DeleteAfterTtl": [sym.TRUE]}
            good = all(tbl.get(k) == v for k, v in want.items())
            ok_any = ok_any or good
            rep.obligation(good, "C06/R06.2/%s/filter" % nm, "%s keeps %s" % (nm, {k: [sym.fmt(x) for x in v] for k, v in tbl.items()}),
                           where(f), sample="%s: filter keeps Set, DeleteAfterTtl; drops Deleted" % nm)
        rep.obligation(ok_any, "C06/R06.2/%s/no-filter" % nm, "%s has no visibility filter" % nm, where(f))
        if nm == "iter_prefix":
            # range lower bound Included(prefix), upper Unbounded; take_while starts_with(prefix)
            okr = False
            for e in fc["range"]:
                b = e[2][1]
                if b[0] == "agg":
                    lo, hi = T.field(b, "0"), T.field(b, "1")
                    okr = (lo[0] == "agg" and lo[2] == "Included" and lo[3][0][1] == ("obj", ("S", "prefix")) or
                           lo[0] == "agg" and lo[2] == "Included" and ("S", "prefix") in [x[1] for x in T.subterms(lo) if x[0] in ("obj", "ptr")]) \
                        and hi[0] == "agg" and hi[2] == "Unbounded"
            rep.obligation(okr, "C06/R06.2/iter_prefix/range", "iter_prefix does not range over [prefix, +inf)", where(f),
                           sample="iter_prefix: range(Included(prefix), Unbounded)")
            okt = False
            for clo in fc["take_while"]:
                st = sym.St()
                for s2, ret in sym.call_closure(fc["eng"], st, clo, [("ptr", ("S", "entry"), ())], 0, ("c", 0)):
                    if ret[0] == "call" and ret[1].endswith("starts_with"):
                        pats = [x for x in T.subterms(ret) if x == ("obj", ("S", "prefix")) or (x[0] == "ptr" and x[1] == ("S", "prefix"))]
                        okt = bool(pats)
            rep.obligation(okt, "C06/R06.2/iter_prefix/take_while", "iter_prefix is not cut by starts_with(prefix)", where(f),
                           sample="iter_prefix: take_while(key.starts_with(prefix))")
    # derived readers
    for nm, via in (("num_key_values", "key_values"), ("contains_key", "get")):
        f = byname.get(nm)
        if f and via in byname:
            calls = [cs for cs in cg.sites[f["id"]] if cs.target == byname[via]["id"]]
            okd = bool(calls)
            if not okd and nm == "num_key_values":
                # a counting loop of its own: the counter is incremented exactly for the entries that are not Deleted
                engc = sym.Engine(fx)
                seen_pol = set()
                okd = True
                for row in engc.table(f["id"]):
                    if row.exit != "backedge":
                        continue
                    info = kv.cond_info(row, status_from=("get", "upd", "iter", "next", "values", None))
                    incs = [e for e in row.events if e[0] == "lwrite" and e[3][0] == "op" and e[3][1] in ("Add", "AddWithOverflow") and sym.C(1) in (e[3][2], e[3][3])]
                    incs += [e for e in row.events if e[0] == "lwrite" and e[3][0] == "proj" and e[3][1][0] == "op" and e[3][1][1] in ("Add", "AddWithOverflow") and sym.C(1) in (e[3][1][2], e[3][1][3])]
                    ss = None
                    for c in row.cond:
                        if c[0] == "variant" and T.last_field(c[1]) == (VV, "status"):
                            ss = ss if ss is not None else set(kv.STATUS_VARIANTS)
                            names = set(c[2]) if isinstance(c[2], (tuple, list)) else {c[2]}
                            ss = (ss & names) if c[3] else (ss - names)
                    if ss is None:
                        okd = False
                        continue
                    deleted = ss == {"Deleted"}
                    visible = "Deleted" not in ss
                    if not (deleted or visible) or bool(incs) != visible:
                        okd = False
                    seen_pol.add(visible)
                okd = okd and seen_pol == {True, False}
            rep.obligation(okd, "C06/R06.2/%s/derivation" % nm, "%s is not derived from %s" % (nm, via), where(f),
                           sample="%s derives from %s" % (nm, via))
    rep.instance(len(readers))


def r06_3(ctx, rep, roles, prefix="C06/R06.3"):
    r = rep.rule(prefix.split("/")[1], "tombstone GC: removed <=> marked and now >= t + grace; watermark' = max(watermark, removed versions)")
    fx = ctx.fx
    fn = roles.ns_gc
    rep.anchor("ns_gc", where(fn))
    eng = sym.Engine(fx)
    rows = eng.table(fn["id"], arg_terms={1: ("ptr", kv.SELF, ()), 2: ("obj", ("S", "grace"))})
    ret = [x for x in rows if x.exit == "return"]
    rep.obligation(len(ret) == 1, prefix + "/shape", "gc has %d return paths" % len(ret), where(fn))
    if not ret:
        return
    row = ret[0]
    # retain call on self.key_values with a closure
    clo = None
    for e in row.calls():
        if sym.strip_all_generics(e[1]).endswith("::retain"):
            tgt = e[2][0]
            rep.obligation(tgt == ("ptr", kv.SELF, (F(NS, "key_values"),)), prefix + "/retain-target",
                           "retain is applied to %s" % sym.fmt(tgt)[:60], where(fn), sample="retain on self.key_values")
            for a in e[2]:
                if a[0] == "closure":
                    clo = a
    if clo is None:
        rep.violation(prefix + "/no-retain", "gc no longer uses retain with a predicate closure", where(fn))
        return
    # final watermark := fold over the closure, starting from the current watermark
    fin = kv.final(eng, row, "last_gc_version")
    ok = fin[0] == "call" and fin[1] == "fold:" + clo[1] and fin[2] == (kv.OLD_GC,)
    rep.obligation(ok, prefix + "/watermark-store", "new watermark is %s, expected the accumulator folded by the predicate starting "
                   "from the current watermark" % sym.fmt(fin)[:120], where(fn), sample="last_gc_version := fold(retain predicate, start = last_gc_version)")
    acc_name = fin[3] if ok else None
    # closure table
    upv = dict(clo[2])
    st = sym.St()
    st.store = dict(row.store)
    acc_ptr = upv.get(acc_name) if acc_name else None
    if acc_ptr is not None and acc_ptr[0] == "ptr":
        eng.write_rp(st, acc_ptr[1], acc_ptr[2], T.R("acc"), log=False)
    outs = list(sym.call_closure(eng, st, clo, [("ptr", ("S", "key"), ()), ("ptr", ("S", "entry"), ())], 0, (fn["id"], 0)))

    def canon(t):
        if t[0] == "proj" and t[2] == F(VV, "version"):
            return T.R("version")
        if t[0] == "proj" and t[2][0] == "f" and t[1][0] == "proj" and t[1][2][0] == "v" and T.last_field(t[1][1]) == (VV, "status"):
            return T.R("t")
        if T.last_field(t) == (VV, "status") and t[0] == "proj":
            return T.R("status")
        if t == ("obj", ("S", "grace")):
            return T.R("grace")
        if t[0] == "call" and t[1].endswith("Instant::now"):
            return T.R("now")
        if acc_ptr is not None and t[0] == "loopvar":
            return None
        return None
    # the accumulator's current value inside the closure
    n = 0
    bad = None
    n_removed = 0
    for s2, retv in outs:
        conds = [T.rewrite_cond(c, canon) for c in s2.cond]
        ws = [e for e in s2.events if e[0] in ("write", "lwrite") and acc_ptr is not None and (e[1], e[2]) == (acc_ptr[1], acc_ptr[2])]
        for kind in ("Set", "Deleted", "DeleteAfterTtl"):
            for now, t, grace in itertools.product(range(0, 4), repeat=3):
                asg = {("discr", T.R("status")): kind, T.R("now"): now, T.R("t"): t, T.R("grace"): grace}
                try:
                    if not all(oe.holds(c, asg) for c in conds):
                        continue
                except oe.NeedAtom as e:
                    bad = bad or ("predicate depends on %s" % sym.fmt(e.atom)[:80],)
                    continue
                n += 1
                keep = oe.ev(T.rewrite(retv, canon), asg)
                want_keep = kind == "Set" or now < t + grace
                if keep != want_keep:
                    bad = bad or ("kind=%s now=%d t=%d grace=%d kept=%s expected %s" % (kind, now, t, grace, keep, want_keep),)
                if not keep:
                    n_removed += 1
                    # fold on removal
                    okf = len(ws) == 1
                    if okf:
                        w = T.rewrite(ws[0][3], canon)
                        accs = [a for a in oe.atoms_of(w, []) if a != T.R("version")]
                        okf = len(accs) == 1
                        if okf:
                            for v, a in itertools.product(range(0, 4), repeat=2):
                                if oe.ev(w, {T.R("version"): v, accs[0]: a}) != max(v, a):
                                    okf = False
                    if not okf:
                        bad = bad or ("a removed entry (kind=%s) does not fold its version into the watermark accumulator" % kind,)
                elif ws:
                    bad = bad or ("a kept entry changes the watermark accumulator",)
    rep.obligation(bad is None, prefix + "/predicate", "GC predicate: %s" % (bad,), where(fn), evaluations=n,
                   sample="removed iff marked and now >= t+grace (boundary included); removed versions folded with max")
    rep.floor("removal-cases", n_removed, 2)
    # provenance of now / grace: captured values
    nowv = upv.get("now") or upv.get("_ref__now")
    rep.obligation(nowv is not None, prefix + "/now", "predicate does not capture `now`", where(fn), sample="now captured once before retain")
    rep.instance(len(outs))


def r06_4(ctx, rep, roles):
    r = rep.rule("R06.4", "delete / delete_after_ttl / set / set_with_ttl effects")
    fx = ctx.fx
    muts = kv.mutators(fx)
    want = {"delete": ("Deleted", True), "delete_after_ttl": ("DeleteAfterTtl", False)}
    for name, (status, clears) in want.items():
        fn = muts[name]
        eng, rows = kv.mutator_table(fx, fn)
        n = 0
        for row in rows:
            if row.exit != "return" or not kv.effective_writes(row):
                continue
            n += 1
            stw = kv.field_writes(row, VV, "status")
            ok = len(stw) == 1 and stw[0][3][0] == "agg" and stw[0][3][2] == status
            if ok:
                inst = stw[0][3][3][0][1]
                ok = inst[0] == "call" and inst[1].endswith("Instant::now")
            rep.obligation(ok, "C06/R06.4/%s/status" % name, "%s stores status %s" % (name, [sym.fmt(e[3])[:60] for e in stw]), where(fn),
                           sample="%s: status := %s(Instant::now())" % (name, status))
            vw = kv.field_writes(row, VV, "value")
            if clears:
                ok = len(vw) == 1 and not [a for a in oe.atoms_of(vw[0][3], []) if a[0] != "call"] and ("c", "") in T.subterms(vw[0][3]) or \
                    (len(vw) == 1 and any(s == ("c", "") for s in T.subterms(vw[0][3])))
                rep.obligation(ok, "C06/R06.4/%s/value-cleared" % name, "%s does not clear the value: %s" % (name, [sym.fmt(e[3])[:60] for e in vw]),
                               where(fn), sample="delete: value := \"\"")
            else:
                rep.obligation(not vw, "C06/R06.4/%s/value-kept" % name, "%s changes the value" % name, where(fn),
                               sample="delete_after_ttl keeps the value")
        rep.floor(name + "-effective-rows", n, 1)
    for name, status in (("set", "Set"), ("set_with_ttl", "DeleteAfterTtl")):
        fn = muts[name]
        eng, rows = kv.mutator_table(fx, fn)
        n = 0
        for row in rows:
            if row.exit != "return":
                continue
            for kind, agg, e in kv.vv_aggs(row):
                n += 1
                stt = T.field(agg, "status")
                ok = stt is not None and stt[0] == "agg" and stt[2] == status
                rep.obligation(ok, "C06/R06.4/%s/status" % name, "%s stores status %s" % (name, sym.fmt(stt)[:60] if stt else None), where(fn),
                               sample="%s stores status %s" % (name, status))
        rep.floor(name + "-stores", n, 2)
    rep.instance(4)
