"""C07 — replies fit one datagram; truncation only cuts the tail (DESIGN §3 C07).  (under construction)"""
from ..core import sym, tables as T, orderenum as oe
from ..core.anchors import where


def kv_under_own_header(ctx, rep, roles, snd, P="C07/R07.4b"):
    """every try_add_kv of the emission loop is preceded, in the same member iteration, by a try_add_node that returned
    true for the same offered entry"""
    add_node, add_kv = roles.ser_add_node["id"], roles.ser_add_kv["id"]
    n = 0
    for row in snd.emit_rows:
        evs = row.events
        for i, e in enumerate(evs):
            if e[0] != "call" or e[1] != add_kv:
                continue
            n += 1
            prev = [x for x in evs[:i] if x[0] == "call" and x[1] == add_node]
            ok = bool(prev)
            if ok:
                node_call = prev[-1]
                okc = False
                for c in row.cond:
                    if c[0] == "truth" and c[1][0] == "call" and c[1][1] == add_node and c[2] is True:
                        okc = True
                ok = okc
            rep.obligation(ok, P + "/kv-without-header", "a key-value is serialised although its member header was not (successfully) added", where(snd.fn, e[3][1]),
                           sample="try_add_kv only after try_add_node(..) == true")
    rep.floor("try_add_kv-sites", n, 1)
