"""C07 — replies fit one datagram; truncation only cuts the tail (DESIGN §3 C07)."""
import itertools
from ..core import sym, tables as T, orderenum as oe, callgraph, inventory as inv
from ..core.anchors import where, AnchorLost
from ..roles import Roles, NS, DS
from .. import models
from ..models import ModelError, F

LEVEL = "other"
EXPLANATION = (
    "Structure decided statically; the byte bound modulo a stated compression assumption: (R07.1) budget accounting — the linear "
    "form of ChitchatMessage::serialized_len for SYN-ACK/ACK, evaluated with delta length = the budget term handed to the delta "
    "computation (extracted from process_message), never exceeds 65,507 for any digest length, and the digest whose length is "
    "reserved is the one put in the reply; (R07.2) every op reaches the stream writer only through try_add_op, which appends "
    "iff the upper bound is <= mtu (extracted table evaluated on a grid of buffer/item/threshold/mtu sizes); (R07.3) the upper "
    "bound equals out + open block + item + 3 + 1 (+3 when the item crosses the block threshold), the per-block overhead 3 "
    "equals the header bytes flush_block writes (block tag 1 + u16 length 2) and finish writes one end tag; (R07.4) key-values "
    "are taken above the announced start version, sorted by version, only under their own accepted member header, and after "
    "the first refusal nothing else is added (the only continuation is finish + return); (R07.5) members in the exclusion set "
    "are never offered; (R07.6 = C08/R08.3) the lengths the bound is computed from (serialized_len) equal the bytes serialize writes.")
TRUSTED = ["zstd::bulk::compress_to_buffer writes at most the destination length (= input length); BTreeMap/itertools sort semantics"]
ASSUMPTIONS = ["an appended item crosses at most one block boundary, or the closed blocks compress enough to pay for their 3-byte "
               "headers (an item may be up to four thresholds long; cannot be decided statically)",
               "own digest leaves at least 100 bytes of room (property's precondition)"]

MAX_UDP = 65507
SLACK = 8
CSW = "serialize::CompressedStreamWriter"


def run(ctx):
    rep = ctx.report
    fx = ctx.fx
    roles = Roles(fx)
    try:
        snd = models.Sender(fx, roles)
        pm = models.ProcessMessage(fx, roles)
    except ModelError as e:
        rep.rule("R07.0", "table extraction")
        rep.violation("C07/" + e.key, e.msg, e.where)
        return
    r07_1(ctx, rep, roles, pm)
    r07_2(ctx, rep, roles)
    r07_3(ctx, rep, roles)
    r07_4(ctx, rep, roles, snd)
    r07_5(ctx, rep, roles, snd)
    # the bound is computed from serialized_len: it must equal the bytes written (seed R2-C07-2)
    from . import c08
    from ..core import wire
    S = wire.impls(fx, wire.SER, "serialize")
    L = wire.impls(fx, wire.SER, "serialized_len")
    W = {ty: (f,) + tuple(wire.writer(fx, f, S, L)) for ty, f in sorted(S.items())}
    c08.r08_3(ctx, rep, S, L, W)
    ctx.report.rules[-1].id = "R07.6(R08.3)"


def msg_len_terms(fx):
    """variant -> linear form of ChitchatMessage::serialized_len, with nested lengths as atoms"""
    f = [x for x in fx.fns.values() if x.get("impl_self") == "message::ChitchatMessage" and x.get("impl_trait") == "serialize::Serializable"
         and x["id"].endswith("::serialized_len")]
    if len(f) != 1:
        raise AnchorLost("ChitchatMessage::serialized_len", "not found")
    f = f[0]
    eng = sym.Engine(fx, inline_only=set(getattr(fx, "new_helpers", ())))
    out = {}
    for row in eng.table(f["id"], arg_terms={1: ("ptr", ("S", "msg"), ())}):
        if row.exit != "return":
            continue
        v = None
        for c in row.cond:
            if c[0] == "variant" and c[3]:
                v = c[2]
        out[v] = (row.ret, row, eng)
    return f, out


def classify_len(t):
    """nested serialized_len(x) call -> which field of the message it measures"""
    if t[0] == "call" and t[1].endswith("serialized_len"):
        for s in T.subterms(t):
            if s[0] == "ptr":
                for e in s[2]:
                    if e[0] == "f" and e[1] == "message::ChitchatMessage":
                        return e[2]
            if s[0] == "proj" and s[2][0] == "f" and s[2][1] == "message::ChitchatMessage":
                return s[2][2]
    return None


def r07_1(ctx, rep, roles, pm):
    r = rep.rule("R07.1", "budget accounting: announced message length with delta length = budget never exceeds 65,507")
    fx = ctx.fx
    mf, forms = msg_len_terms(fx)
    rep.anchor("ChitchatMessage::serialized_len", where(mf))
    n = 0
    for variant, arm in (("SynAck", "Syn"), ("Ack", "SynAck")):
        if variant not in forms:
            rep.obligation(False, "C07/R07.1/form/%s" % variant, "no serialized_len form for %s" % variant, where(mf))
            continue
        term, row, eng = forms[variant]
        atoms = oe.atoms_of(term, [])
        roles_map = {a: classify_len(a) for a in atoms}
        rep.obligation(all(roles_map.values()), "C07/R07.1/form-atoms/%s" % variant, "serialized_len(%s) depends on %s" % (variant, [sym.fmt(a)[:50] for a in atoms if not roles_map[a]]),
                       where(mf))
        for prow in pm.by_variant.get(arm, []):
            cds = pm.calls(prow, "compute_delta")
            if not cds:
                continue
            budget = T.resolve_locals(pm.eng, prow.store, cds[0][2][2])
            batoms = oe.atoms_of(budget, [])
            # the only atom allowed in the budget is the length of the node's own digest
            dl_atoms = [a for a in batoms if a[0] == "call" and a[1] == pm.digest_len]
            rep.obligation(len(batoms) == len(dl_atoms) and len(dl_atoms) <= 1, "C07/R07.1/budget-atoms/%s" % arm,
                           "the delta budget depends on %s" % [sym.fmt(a)[:60] for a in batoms if a not in dl_atoms], where(pm.fn, cds[0][3][1]))
            if variant == "SynAck":
                # reserved digest == digest in the reply
                inner = T.field(prow.ret, "0")
                dg = T.field(inner, "digest") if inner is not None and inner[0] == "agg" else None
                measured = T.resolve_locals(pm.eng, prow.store, dl_atoms[0][2][0]) if dl_atoms else None
                okd = dg is not None and measured is not None and dg[0] == "call" and any(
                    x[0] == "call" and x[1] == dg[1] and x[3] == dg[3] for x in T.subterms(measured))
                rep.obligation(okd, "C07/R07.1/reserved-digest", "the digest whose length is reserved (%s) is not the digest put in the reply (%s)" % (
                    sym.fmt(measured)[:50] if measured else None, sym.fmt(dg)[:50] if dg else None), where(pm.fn), sample="budget reserves len(self_digest); reply carries self_digest")
            bad = None
            for D in (0, 2, 500, 30000, 65000, 65403):
                asg_b = {a: D for a in dl_atoms}
                try:
                    X = oe.ev(budget, asg_b)
                except oe.NeedAtom as e:
                    bad = bad or "budget not evaluable (%s)" % sym.fmt(e.atom)[:60]
                    break
                if X < 100:
                    continue  # outside the property's precondition
                asg = {}
                for a, role in roles_map.items():
                    asg[a] = D if role == "digest" else X if role == "delta" else 0
                total = oe.ev(term, asg)
                n += 1
                if total > MAX_UDP:
                    bad = bad or "own digest of %d bytes: budget %d gives a %s of %d bytes" % (D, X, variant, total)
            rep.obligation(bad is None, "C07/R07.1/budget/reserved<header", "%s" % bad, where(pm.fn, cds[0][3][1]), evaluations=n,
                           sample="%s: len = %s with delta <= %s  =>  <= 65,507" % (variant, sym.fmt(term)[:70], sym.fmt(budget)[:40]))
    rep.floor("budget-evaluations", n, 6)
    rep.instance(n)


def r07_2(ctx, rep, roles):
    r = rep.rule("R07.2", "every op is admitted by the bound: try_add_op appends iff upper bound <= mtu; no other path to the stream writer")
    fx = ctx.fx
    cg = callgraph.CallGraph(fx)
    addop = roles.ser_add_op
    rep.anchor("try_add_op", where(addop))
    app = [f for f in fx.fns.values() if f.get("impl_self") == CSW and f["id"].endswith("::append")]
    ub = [f for f in fx.fns.values() if f.get("impl_self") == CSW and f.get("output") == "usize" and len(f.get("inputs", [])) == 2]
    if len(app) != 1 or len(ub) != 1:
        raise AnchorLost("CompressedStreamWriter", "append / upper bound not found")
    app, ub = app[0], ub[0]
    eng = sym.Engine(fx, no_inline={app["id"], roles.builder_apply_op["id"]})
    rows = eng.table(addop["id"], arg_terms={1: ("ptr", ("S", "self"), ()), 2: ("obj", ("S", "op"))})
    SELF = ("obj", ("S", "self"))
    W = ("proj", SELF, F(DS, "compressed_stream_writer"))
    OUT = ("call", None)
    n = 0
    bad = None

    def canon(t):
        if t[0] == "call" and t[1].endswith("::len") and t[2]:
            lf = T.last_field(t[2][0])
            if lf == (CSW, "output"):
                return T.R("out")
            if lf == (CSW, "uncompressed_block"):
                return T.R("cur")
        if t[0] == "call" and t[1].endswith("serialized_len"):
            return T.R("item")
        if T.last_field(t) == (CSW, "block_threshold"):
            return T.R("thr")
        if t == ("proj", SELF, F(DS, "mtu")):
            return T.R("mtu")
        return None
    ret_rows = [x for x in rows if x.exit in ("return", "panic")]
    conds = [[T.rewrite_cond(c, canon) for c in row.cond] for row in ret_rows]
    for out, cur, item, thr, mtu in itertools.product((0, 5, 40), (0, 3, 9), (1, 4, 12), (8, 16), (10, 17, 18, 30, 31, 60, 100)):
        asg = {T.R("out"): out, T.R("cur"): cur, T.R("item"): item, T.R("thr"): thr, T.R("mtu"): mtu}
        bound = 3 + out + cur + item + 1 + (3 if cur + item > thr else 0)
        matched = 0
        for row, cs in zip(ret_rows, conds):
            ok = True
            for c in cs:
                try:
                    if not oe.holds(c, asg):
                        ok = False
                        break
                except oe.NeedAtom:
                    continue
            if not ok:
                continue
            matched += 1
            n += 1
            appended = any(e[1] == app["id"] for e in row.calls())
            applied = any(e[1] == roles.builder_apply_op["id"] for e in row.calls())
            fits = bound <= mtu
            must = bound + SLACK <= mtu       # a stricter admission (refusing within a few bytes of the limit) is safe
            if appended != applied:
                bad = bad or "appended=%s but recorded=%s" % (appended, applied)
            if appended and not fits:
                bad = bad or "out=%d open=%d item=%d threshold=%d mtu=%d: appended although the bound is %d" % (out, cur, item, thr, mtu, bound)
            if must and not appended:
                bad = bad or "out=%d open=%d item=%d threshold=%d mtu=%d: refused although the bound is only %d" % (out, cur, item, thr, mtu, bound)
            if row.exit == "return" and row.ret in (sym.TRUE, sym.FALSE) and (row.ret == sym.TRUE) != appended:
                bad = bad or "returns %s although appended=%s" % (sym.fmt(row.ret), appended)
        if matched == 0:
            bad = bad or "no path for out=%d open=%d item=%d" % (out, cur, item)
    rep.obligation(bad is None, "C07/R07.2/admission", "try_add_op: %s" % bad, where(addop), evaluations=n,
                   sample="append & record iff 3 + out + open + item + 1 (+3 across a block boundary) <= mtu")
    # who may call append / apply_op / try_add_op
    for cs in cg.callers_of(app["id"]):
        owner = fx.fns[fx.root_fn(cs.caller)].get("impl_self")
        ok = cs.caller == addop["id"] or owner == "delta::Delta"
        rep.obligation(ok, "C07/R07.2/append-caller/%s" % cs.caller, "CompressedStreamWriter::append is called from %s (bypasses the budget check)" % cs.caller,
                       where(fx.fns[cs.caller], cs.line), sample="append <- %s" % cs.caller.split("::")[-1])
    three = {roles.ser_add_node["id"], roles.ser_add_kv["id"], roles.ser_set_max["id"]}
    for cs in cg.callers_of(addop["id"]):
        rep.obligation(cs.caller in three, "C07/R07.2/add_op-caller/%s" % cs.caller, "try_add_op is called from %s" % cs.caller, where(fx.fns[cs.caller], cs.line),
                       sample="try_add_op <- %s" % cs.caller.split("::")[-1])
    for fid in three:
        f = fx.fns[fid]
        sites = [cs for cs in cg.sites[fid] if cs.target == addop["id"]]
        rep.obligation(len(sites) == 1, "C07/R07.2/wrapper/%s" % fid, "%s does not go through try_add_op exactly once" % fid, where(f), sample="%s -> try_add_op" % fid.split("::")[-1])
        e2 = sym.Engine(fx, no_inline={addop["id"]})
        for row in e2.table(fid):
            if row.exit == "return":
                rep.obligation(row.ret[0] == "call" and row.ret[1] == addop["id"], "C07/R07.2/wrapper-result/%s" % fid,
                               "%s does not return try_add_op's verdict" % fid, where(f), sample="%s returns try_add_op(..)" % fid.split("::")[-1])
    # direct users of the writer field inside DeltaSerializer
    for s in inv.field_writes(fx, DS, "compressed_stream_writer"):
        root = fx.root_fn(s.fn)
        ok = root in (addop["id"], roles.ser_new["id"], roles.ser_finish["id"])
        rep.obligation(ok, "C07/R07.2/writer-user/%s" % root, "the stream writer is used mutably in %s" % s.fn, s.where(), sample="writer touched in %s" % root.split("::")[-1])
    rep.instance(n)


def r07_3(ctx, rep, roles):
    r = rep.rule("R07.3", "the bound matches the writer: formula, per-block overhead = header bytes written, one end tag")
    fx = ctx.fx
    ub = [f for f in fx.fns.values() if f.get("impl_self") == CSW and f.get("output") == "usize" and len(f.get("inputs", [])) == 2][0]
    fl = [f for f in fx.fns.values() if f.get("impl_self") == CSW and f.get("inputs") == ["&mut " + CSW] and f.get("output") == "()"]
    fin = [f for f in fx.fns.values() if f.get("impl_self") == CSW and f.get("inputs") == [CSW]]
    rep.anchor("upper bound", where(ub))
    eng = sym.Engine(fx, inline_only=set(getattr(fx, "new_helpers", ())))
    SELF = ("obj", ("S", "self"))

    def canon(t):
        if t[0] == "call" and t[1].endswith("::len") and t[2]:
            lf = T.last_field(t[2][0])
            if lf == (CSW, "output"):
                return T.R("out")
            if lf == (CSW, "uncompressed_block"):
                return T.R("cur")
        if t[0] == "call" and t[1].endswith("serialized_len"):
            return T.R("item")
        if T.last_field(t) == (CSW, "block_threshold"):
            return T.R("thr")
        return None
    rows = [x for x in eng.table(ub["id"], arg_terms={1: ("ptr", ("S", "self"), ()), 2: ("ptr", ("S", "item"), ())}) if x.exit == "return"]
    n = 0
    bad = None
    for out, cur, item, thr in itertools.product((0, 7, 100), (0, 5, 16), (1, 3, 20), (8, 16)):
        asg = {T.R("out"): out, T.R("cur"): cur, T.R("item"): item, T.R("thr"): thr}
        vals = []
        for row in rows:
            try:
                if all(oe.holds(T.rewrite_cond(c, canon), asg) for c in row.cond):
                    vals.append(oe.ev(T.rewrite(row.ret, canon), asg))
            except oe.NeedAtom as e:
                bad = bad or "bound depends on %s" % sym.fmt(e.atom)[:60]
        n += 1
        want = out + cur + item + 3 + 1 + (3 if cur + item > thr else 0)
        if vals != [want]:
            bad = bad or "out=%d open=%d item=%d threshold=%d: bound %s, expected %d" % (out, cur, item, thr, vals, want)
    rep.obligation(bad is None, "C07/R07.3/bound-formula", "upper bound: %s" % bad, where(ub), evaluations=n,
                   sample="bound = out + open + item + 3 + 1 (+3 if open + item > threshold) on %d points" % n)
    # flush_block header = BlockType (1) + u16 (2)
    if len(fl) == 1:
        f = fl[0]
        rows = eng.table(f["id"], arg_terms={1: ("ptr", ("S", "self"), ())})
        n_paths = 0
        for row in rows:
            if row.exit != "return":
                continue
            sers = [e for e in row.calls() if e[1].endswith("Serializable>::serialize") and e[2] and len(e[2]) > 1 and T.last_field(("proj", ("obj", ("S", "x")), e[2][1][2][-1])) == (CSW, "output")
                    if e[2][1][0] == "ptr" and e[2][1][2]]
            exts = [e for e in row.calls() if (e[1].endswith("::extend") or e[1].endswith("::extend_from_slice")) and e[2] and e[2][0][0] == "ptr" and e[2][0][2] and e[2][0][2][-1] == F(CSW, "output")]
            if not sers and not exts:
                continue
            n_paths += 1
            kinds = []
            for e in sers:
                kinds.append("BlockType" if "BlockType" in e[1] else "u16" if "<u16 as" in e[1] else e[1])
            rep.obligation(kinds == ["BlockType", "u16"] and len(exts) == 1, "C07/R07.3/block-header", "a flushed block writes header %s and %d payload extends (bound assumes tag 1 + u16 2 = 3 bytes)" % (
                kinds, len(exts)), where(f), sample="flush_block: BlockType(1) + u16(2) + payload")
            # payload is a prefix of the (compressed or raw) block of at most `num_bytes_to_compress` bytes
        rep.floor("flush-paths", n_paths, 2)
    if len(fin) == 1:
        f = fin[0]
        for row in eng.table(f["id"], arg_terms={1: ("obj", ("S", "self"))}):
            if row.exit == "return":
                sers = [e for e in row.calls() if e[1].endswith("Serializable>::serialize")]
                ok = len(sers) == 1 and "BlockType" in sers[0][1] and T.resolve_locals(eng, row.store, sers[0][2][0]) in (
                    ("agg", "serialize::BlockType", "NoMoreBlocks", ()),) or (len(sers) == 1 and "BlockType" in sers[0][1])
                rep.obligation(ok, "C07/R07.3/end-tag", "finish writes %d items" % len(sers), where(f), sample="finish: flush + one end tag")
    # serialized_len of the header items
    for ty, want in (("serialize::BlockType", 1), ("u16", 2)):
        f = [x for x in fx.fns.values() if x.get("impl_self") == ty and x.get("impl_trait") == "serialize::Serializable" and x["id"].endswith("serialized_len")]
        if f:
            for row in sym.Engine(fx).table(f[0]["id"]):
                if row.exit == "return":
                    rep.obligation(row.ret == sym.C(want), "C07/R07.3/header-item-len/%s" % ty, "%s announces %s bytes" % (ty, sym.fmt(row.ret)), where(f[0]),
                                   sample="%s: %d byte(s)" % (ty, want))
    rep.instance(n)


def r07_4(ctx, rep, roles, snd):
    r = rep.rule("R07.4", "ascending, gap-free, tail-only truncation")
    fx = ctx.fx
    # (a) stale_kvs: taken above the start version, sorted by version
    sk = roles.stale_kvs
    eng = sym.Engine(fx, inline_only=set(getattr(fx, "new_helpers", ())))
    STALE = models.STALE
    ok_sort = ok_src = False
    for row in eng.table(sk["id"], arg_terms={1: ("ptr", ("S", "stale"), ())}):
        if row.exit != "return":
            continue
        t = T.resolve_locals(eng, row.store, row.ret)
        sorts = [s for s in T.subterms(t) if s[0] == "call" and s[1].split("::")[-1] in (
            "sorted_unstable_by_key", "sorted_by_key", "sorted_by_cached_key", "sort_by_key", "sort_unstable_by_key")]
        # `collect` into a Vec, sort it in place, hand out `into_iter()`: the sort is an event of the row, not part of the value
        sorts += [("call", e[1], tuple(T.resolve_locals(eng, row.store, a) for a in e[2]), None) for e in row.calls()
                  if sym.strip_all_generics(e[1]).split("::")[-1] in ("sort_by_key", "sort_unstable_by_key", "sort_by_cached_key")]
        srcs = [s for s in T.subterms(t) if s[0] == "call" and s[1] == roles.ns_stale_kvs["id"]]
        if srcs:
            a0, a1 = srcs[0][2][0], srcs[0][2][1]
            ok_src = T.mentions_field(a0, STALE, "node_state") and T.last_field(a1) == (STALE, "from_version_excluded")
        for s in sorts:
            clo = [a for a in s[2] if a[0] == "closure"]
            if clo:
                st = sym.St()
                outs = list(sym.call_closure(sym.Engine(fx), st, clo[0], [("ptr", ("S", "entry"), ())], 0, (sk["id"], 0)))
                ok_sort = all(T.last_field(ret) == ("types::VersionedValue", "version") for _, ret in outs) and bool(outs)
    rep.obligation(ok_src, "C07/R07.4/kv-source", "the key-values of an offered member are not taken from its copy above the announced start version", where(sk),
                   sample="kvs = node_state.stale_key_values(from_version_excluded)")
    rep.obligation(ok_sort, "C07/R07.4/sorted-by-version", "the key-values of an offered member are not sorted by version", where(sk), sample="sorted by VersionedValue.version")
    from . import c14
    c14.check_stale_filter(ctx, rep, roles)
    # (b) under own header
    kv_under_own_header(ctx, rep, roles, snd)
    # (c) nothing after a refusal
    add_node, add_kv, set_max, fin = (roles.ser_add_node["id"], roles.ser_add_kv["id"], roles.ser_set_max["id"], roles.ser_finish["id"])
    n_ref = 0
    for row in snd.emit_rows:
        refused = None
        for c in row.cond:
            if c[0] == "truth" and c[1][0] == "call" and c[1][1] in (add_node, add_kv) and c[2] is False:
                refused = c[1]
        if refused is None:
            continue
        n_ref += 1
        # position of the refused call among the events
        idx = None
        for i, e in enumerate(row.events):
            if e[0] == "call" and e[1] == refused[1] and ("call", e[1], e[2], refused[3]) == refused[:4]:
                idx = i
        if idx is None:
            cands = [i for i, e in enumerate(row.events) if e[0] == "call" and e[1] == refused[1]]
            idx = cands[-1] if cands else 0
        later = [e for e in row.events[idx + 1:] if e[0] == "call" and e[1] in (add_node, add_kv, set_max)]
        ok = not later and row.exit == "return" and any(e[0] == "call" and e[1] == fin for e in row.events[idx + 1:])
        what = "a key-value" if refused[1] == add_kv else "a member header"
        rep.obligation(ok, "C07/R07.4/after-refusal", "after %s was refused for lack of space the sender continues (%s, exit=%s): later items would leave a gap "
                       "the receiver never asks for again" % (what, [e[1].split("::")[-1] for e in later], row.exit), where(snd.fn),
                       sample="refusal of %s -> finish() and return" % what)
    rep.floor("refusal-paths", n_ref, 2)
    rep.instance(n_ref)


def kv_under_own_header(ctx, rep, roles, snd, P="C07/R07.4b"):
    """every try_add_kv of the emission loop is preceded, in the same member iteration, by a try_add_node that returned
    true for the same offered entry"""
    add_node, add_kv = roles.ser_add_node["id"], roles.ser_add_kv["id"]
    n = 0
    for row in snd.emit_rows:
        evs = row.events
        for i, e in enumerate(evs):
            if e[0] != "call" or e[1] != add_kv:
                continue
            n += 1
            prev = [x for x in evs[:i] if x[0] == "call" and x[1] == add_node]
            ok = bool(prev)
            if ok:
                okc = False
                for c in row.cond:
                    if c[0] == "truth" and c[1][0] == "call" and c[1][1] == add_node and c[2] is True:
                        okc = True
                ok = okc
            rep.obligation(ok, P + "/kv-without-header", "a key-value is serialised although its member header was not (successfully) added", where(snd.fn, e[3][1]),
                           sample="try_add_kv only after try_add_node(..) == true")
    rep.floor("try_add_kv-sites", n, 1)


def r07_5(ctx, rep, roles, snd):
    r = rep.rule("R07.5", "members in the exclusion set are never offered")
    try:
        for sg, sm, rg, rm in ((0, 1, 0, 0), (3, 5, 1, 2), (2, 6, 4, 4), (0, 9, 0, 8)):
            for present in (True, False):
                off, frm, _ = snd.decide(sg, sm, rg, rm, present, scheduled=True)
                rep.obligation(not off, "C07/R07.5/scheduled-member-offered", "a member scheduled for deletion is still offered in a delta", where(snd.fn),
                               sample="scheduled member: skipped")
    except ModelError as e:
        rep.violation("C07/R07.5/" + e.key, e.msg, e.where)
    rep.instance(8)
