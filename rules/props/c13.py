"""C13 — the live-members watch channel (DESIGN §3 C13)."""
from ..core import sym, tables as T, orderenum as oe, callgraph, inventory as inv
from ..core.anchors import where
from ..roles import Roles, NS
from .. import models
from ..models import ModelError, F

LEVEL = "other"
EXPLANATION = (
    "Publication discipline decided on the extracted table of Chitchat::update_nodes_liveness and its closures: (R13.1) the "
    "watch sender field is used only by the constructor and update_nodes_liveness and no public function returns a sender; "
    "(R13.2) a value is sent iff previous_live_nodes != current_live_nodes (whole-map inequality), and on exactly those paths "
    "previous_live_nodes := the compared current map; (R13.3) the compared map is collected from live_nodes() (which starts "
    "with the own id) keyed by the full member id with value NodeState::max_version(); the sent map is built from the same "
    "key set, dropping an entry iff the extra predicate is configured and false, value = clone of the current node state; "
    "(R13.4) the accessors hand out clones of the receiver created together with the sender.")
TRUSTED = ["HashMap equality; tokio::sync::watch semantics"]
ASSUMPTIONS = ["a predicate whose result changes without a max-version change (e.g. one reading the heartbeat) is documented as "
               "not notified; 'exact after every evaluation' additionally needs predicate flips to imply a version change"]

TX = ("f", "Chitchat", "live_nodes_watcher_tx")
RX = ("f", "Chitchat", "live_nodes_watcher_rx")


def run(ctx):
    rep = ctx.report
    fx = ctx.fx
    roles = Roles(fx)
    # first: the snapshot published is `node_state.clone()` and the maps are keyed by the id — both must be the structural ones
    from .. import identity
    identity.check(ctx, rep, "C13", "R13.5", ["id-eq", "id-ord", "id-clone", "ns-clone"])
    identity.check_keys(ctx, rep, "C13", "R13.6", ["watch", "fd-sets", "cluster"])
    try:
        nl = models.NodesLiveness(fx, roles)
    except ModelError as e:
        rep.rule("R13.0", "table extraction")
        rep.violation("C13/" + e.key, e.msg, e.where)
        return
    r13_1(ctx, rep, roles, nl)
    r13_2(ctx, rep, roles, nl)
    r13_3(ctx, rep, roles, nl)
    r13_4(ctx, rep, roles)


def field_users(fx, adt, name):
    out = []
    for fid, f in fx.fns.items():
        for b in f["blocks"]:
            if b["cleanup"]:
                continue
            places = []
            for s in b["stmts"]:
                if s["k"] == "assign":
                    places.append(s["place"])
                    rv = s["rv"]
                    if "place" in rv:
                        places.append(rv["place"])
                    for k in ("op", "a", "b"):
                        if k in rv and isinstance(rv[k], dict) and "place" in rv[k]:
                            places.append(rv[k]["place"])
                    for o in rv.get("ops", []):
                        if "place" in o:
                            places.append(o["place"])
            t = b["term"]
            for a in t.get("args", []):
                if "place" in a:
                    places.append(a["place"])
            for pl in places:
                if any(e["k"] == "field" and e.get("adt") == adt and e.get("name") == name for e in pl["proj"]):
                    out.append(fid)
    return sorted(set(out))


def r13_1(ctx, rep, roles, nl):
    r = rep.rule("R13.1", "single publisher: the watch sender is used only by the constructor and update_nodes_liveness")
    fx = ctx.fx
    users = field_users(fx, "Chitchat", "live_nodes_watcher_tx")
    ctor = [f["id"] for f in fx.methods_of("Chitchat") if f.get("output") in ("Chitchat", "Self") and f["kind"] == "method"]
    for u in users:
        root = fx.root_fn(u)
        rep.obligation(root == nl.fn["id"] or root in ctor, "C13/R13.1/sender-user/%s" % root, "the watch sender is used in %s" % u, where(fx.fns[u]),
                       sample="sender used in %s" % root.split("::")[-1])
    rep.floor("sender-users", len(users), 1)
    for f in fx.fns.values():
        if f.get("reachable") and "watch::Sender" in (f.get("output") or "") and "Chitchat" in (f.get("impl_self") or ""):
            rep.obligation(False, "C13/R13.1/sender-exposed/%s" % f["id"], "public function %s returns a watch sender" % f["id"], where(f))
    # aggregates constructing Chitchat: tx and rx come from one channel() call
    for s in inv.aggregates(fx, "Chitchat"):
        rv = s.rv
        names = rv["fields"]
        rep.obligation("live_nodes_watcher_tx" in names and "live_nodes_watcher_rx" in names, "C13/R13.1/ctor-fields", "constructor shape changed", s.where(),
                       sample="Chitchat{.., live_nodes_watcher_tx, live_nodes_watcher_rx}")
    rep.instance(len(users))


def send_calls(row):
    return [e for e in row.events if e[0] == "call" and sym.strip_all_generics(e[1]).endswith("watch::Sender::send") and e[2]
            and e[2][0][0] == "ptr" and TX in e[2][0][2]]


def r13_2(ctx, rep, roles, nl):
    r = rep.rule("R13.2", "publish iff previous_live_nodes != current_live_nodes; previous := current on exactly those paths")
    rep.anchor("update_nodes_liveness", where(nl.fn))
    n = 0
    seen = set()
    for row in nl.rows:
        # only rows that passed the comparison point
        cmpc = None
        for c in row.cond:
            if c[0] == "truth" and c[1][0] == "op" and c[1][1] in ("Ne", "Eq") and nl.PREV in (c[1][2], c[1][3]):
                cmpc = c
        sends = send_calls(row)
        wprev = [e for e in row.writes() if e[2] == (("f", "Chitchat", "previous_live_nodes"),)]
        if cmpc is None:
            rep.obligation(not sends and not wprev, "C13/R13.2/publish-without-compare",
                           "a value is published / previous_live_nodes updated on a path that does not compare it with the current live "
                           "map as a whole", where(nl.fn), sample="before the comparison: nothing published")
            continue
        if row.exit == "backedge" and not sends and not wprev and not any(e[1] == nl.keep["garbage_collect"] for e in row.calls()):
            continue        # body of a loop between the comparison and the publication (e.g. the published map filled by a for loop)
        n += 1
        changed = (cmpc[1][1] == "Ne") == cmpc[2]
        seen.add(changed)
        cur = cmpc[1][3] if cmpc[1][2] == nl.PREV else cmpc[1][2]
        rep.obligation(len(sends) == (1 if changed else 0), "C13/R13.2/send-iff-changed",
                       "changed=%s but %d values sent" % (changed, len(sends)), where(nl.fn), sample="changed=%s -> %d send" % (changed, 1 if changed else 0))
        ok = (len(wprev) == 1 and wprev[0][3] == cur) if changed else not wprev
        rep.obligation(ok, "C13/R13.2/previous-updated", "changed=%s: previous_live_nodes %s" % (
            changed, "not set to the compared map" if changed else "modified"), where(nl.fn), sample="changed -> previous := current")
    rep.obligation(seen == {True, False}, "C13/R13.2/both-outcomes", "comparison outcomes seen: %s" % sorted(seen), where(nl.fn))
    rep.floor("compared-rows", n, 2)
    rep.instance(n)


def r13_3(ctx, rep, roles, nl):
    r = rep.rule("R13.3", "what is compared (id -> max_version over live_nodes()) and what is sent (same keys, predicate-filtered, "
                          "current state clones)")
    fx = ctx.fx
    eng = nl.eng
    NSF = nl.keep.get("node_state")
    LN = nl.keep.get("live_nodes")
    checked = 0
    for row in nl.rows:
        cmpc = None
        for c in row.cond:
            if c[0] == "truth" and c[1][0] == "op" and c[1][1] in ("Ne", "Eq") and nl.PREV in (c[1][2], c[1][3]):
                cmpc = c
        if cmpc is None:
            continue
        cur = cmpc[1][3] if cmpc[1][2] == nl.PREV else cmpc[1][2]
        # cur = collect(flat_map(live_nodes(&self), closure))
        ok = cur[0] == "call" and cur[1].endswith("::collect")
        src = cur[2][0] if ok else None
        ok = ok and src[0] == "call" and src[1].split("::")[-1] in ("flat_map", "filter_map", "map")
        if not ok:
            # loop style: `let mut m = HashMap::new(); for id in self.live_nodes() { if let Some(st) = self.node_state(id) { m.insert(id.clone(), st.max_version()); .. } }`
            okb = loop_built_current(rep, nl, eng, row, cur, LN, NSF)
            if not okb:
                rep.obligation(False, "C13/R13.3/current-shape", "the compared map is %s" % sym.fmt(cur)[:100], where(nl.fn))
                continue
            checked += 1
            sends_todo = send_calls(row)
            if sends_todo:
                check_sent(rep, nl, eng, row, cur, NSF)
            continue
        base, clo = src[2][0], src[2][1]
        rep.obligation(base[0] == "call" and base[1] == LN, "C13/R13.3/current-source", "the compared map is not built from live_nodes(): %s" % sym.fmt(base)[:80],
                       where(nl.fn), sample="current = live_nodes().map(id -> (id, max_version))")
        st = sym.St()
        st.store = dict(row.store)
        outs = list(sym.call_closure(eng, st, clo, [("ptr", ("S", "mid"), ())], 0, (nl.fn["id"], 0)))
        for s2, ret in outs:
            present = None
            for c in s2.cond:
                if c[0] == "variant" and c[1][0] == "call" and c[1][1] == NSF and c[3]:
                    present = c[2] == "Some"
                    rep.obligation(c[1][2][1] == ("ptr", ("S", "mid"), ()), "C13/R13.3/current-lookup", "state looked up for another id", where(nl.fn))
            if present:
                ok = sym.is_some(ret)
                tup = ret[3][0][1] if ok else None
                k = T.field(tup, "0") if tup and tup[0] == "agg" else None
                v = T.field(tup, "1") if tup and tup[0] == "agg" else None
                kok = k is not None and (k == ("obj", ("S", "mid")) or (k[0] == "agg" and k[1] == "types::ChitchatId" and all(
                    fv == ("proj", ("obj", ("S", "mid")), F("types::ChitchatId", fn_)) for fn_, fv in k[3])))
                rep.obligation(kok, "C13/R13.3/current-key", "the compared map is keyed by %s, not by the full member id" % (sym.fmt(k)[:80] if k else None),
                               where(nl.fn), sample="key = member id (clone)")
                vok = v is not None and T.last_field(v) == (NS, "max_version")
                rep.obligation(vok, "C13/R13.3/current-value", "the compared value is %s, not the member's max_version" % (sym.fmt(v)[:60] if v else None),
                               where(nl.fn), sample="value = node_state.max_version()")
            elif present is False:
                rep.obligation(sym.is_none(ret), "C13/R13.3/current-absent", "a live id without state still contributes", where(nl.fn))
        checked += 1
        check_sent(rep, nl, eng, row, cur, NSF)
    rep.floor("compared-paths", checked, 2)
    rep.instance(checked)


def check_sent(rep, nl, eng, row, cur, NSF):
    """what is published: same keys as the compared map, predicate-filtered, clones of the current state"""
    for e in send_calls(row):
        sent = T.resolve_locals(eng, row.store, e[2][1])
        ok = sent[0] == "call" and sent[1].endswith("::collect")
        inner = sent[2][0] if ok else None
        ok = ok and inner[0] == "call" and inner[1].split("::")[-1] in ("flat_map", "filter_map")
        if not ok:
            if not loop_built_sent(rep, nl, eng, row, cur, NSF, sent):
                rep.obligation(False, "C13/R13.3/sent-shape", "the published value is %s" % sym.fmt(sent)[:100], where(nl.fn))
            continue
        base2, clo2 = inner[2][0], inner[2][1]
        rep.obligation(any(s == cur or (s[0] == "ptr" and T.resolve_locals(eng, row.store, s) == cur) for s in T.subterms(base2)) or
                       cur in T.subterms(T.resolve_locals(eng, row.store, base2)),
                       "C13/R13.3/sent-keys", "the published map is not built from the keys of the compared map", where(nl.fn),
                       sample="sent keys = keys of current")
        st = sym.St()
        st.store = dict(row.store)
        cv = T.resolve_locals(eng, row.store, clo2)
        cfn = eng.fx.fns.get(cv[1]) if cv[0] in ("closure", "fnptr") else None
        by_ref = bool(cfn) and any(i.lstrip("(").startswith("&types::ChitchatId") or i.lstrip("(").startswith("&'") for i in (cfn.get("inputs") or [])[-1:])
        # the keys may be handed to the closure by value (`keys().cloned().flat_map`) or by reference (`keys().filter_map`)
        outs = list(sym.call_closure(eng, st, clo2, [("ptr", ("S", "mid"), ()) if by_ref else ("obj", ("S", "mid"))], 0, (nl.fn["id"], 1)))
        for s2, ret in outs:
            present = pred = predval = None
            for c in s2.cond:
                if c[0] == "variant" and c[1][0] == "call" and c[1][1] == NSF and c[3]:
                    present = c[2] == "Some"
                if c[0] == "variant" and T.last_field(c[1]) == ("configuration::ChitchatConfig", "extra_liveness_predicate") and c[3]:
                    pred = c[2] == "Some"
                if c[0] == "truth" and c[1][0] == "call" and "Fn" in c[1][1]:
                    predval = c[2]
            want_some = present is True and (pred is False or (pred is True and predval is True))
            rep.obligation(sym.is_some(ret) == want_some and (present is not None), "C13/R13.3/sent-filter",
                           "entry published=%s when state present=%s, predicate configured=%s, predicate value=%s" % (sym.is_some(ret), present, pred, predval),
                           where(nl.fn), sample="present=%s predicate=%s/%s -> %s" % (present, pred, predval, "listed" if want_some else "dropped"))
            if sym.is_some(ret):
                tup = ret[3][0][1]
                k, v = T.field(tup, "0"), T.field(tup, "1")
                k = T.resolve_locals(eng, s2.store, k) if k is not None else k
                kok = k == ("obj", ("S", "mid")) or (k is not None and k[0] == "agg" and k[1] == "types::ChitchatId" and all(
                    fv == ("proj", ("obj", ("S", "mid")), F("types::ChitchatId", fn_)) or sym.fmt(fv) in ("mid.%s" % fn_, "*(mid).%s" % fn_)
                    for fn_, fv in k[3]))      # a clone of the key, taken by value or through the reference the iterator yields
                rep.obligation(kok, "C13/R13.3/sent-key", "published under key %s" % sym.fmt(k)[:60], where(nl.fn))
                vok = v is not None and (v[0] == "agg" and v[1] == NS or T.mentions_field(v, "std::option::Option", "0")) and any(
                    s[0] == "call" and s[1] == NSF for s in T.subterms(v))
                rep.obligation(vok, "C13/R13.3/sent-value", "published value is not a clone of the member's current state", where(nl.fn),
                               sample="value = node_state.clone()")


def loop_built_sent(rep, nl, eng, row, cur, NSF, sent):
    """the published map when a for loop over the keys of the compared map fills it: an entry is inserted iff the member has a
    state and the configured predicate (if any) accepts it; key = the id, value = a clone of the current state"""
    fresh = None
    for x in T.subterms(sent):
        if x[0] == "call" and not x[1].startswith(("havoc:", "fold:")) and sym.strip_all_generics(x[1]).split("::")[-1] in ("new", "default") and "BTreeMap" in x[1]:
            fresh = (x[1], x[3])
    if fresh is None:
        return False
    n_rows = 0
    ok_all = True
    for r, adds in T.collection_items(eng, nl.rows):
        nxt = [c for c in r.cond if c[0] == "variant" and c[3] and c[2] == "Some" and c[1][0] == "call" and c[1][1].endswith("::next")]
        if not nxt:
            continue
        it = T.resolve_locals(eng, r.store, nxt[-1][1])
        if not (any(x == cur for x in T.subterms(it)) and any(x[0] == "call" and sym.strip_all_generics(x[1]).split("::")[-1] == "keys" for x in T.subterms(it))):
            continue        # another loop
        n_rows += 1
        present = pred = predval = None
        for c in r.cond:
            if c[0] == "variant" and c[1][0] == "call" and c[1][1] == NSF and c[3]:
                present = c[2] == "Some"
            if c[0] == "variant" and T.last_field(c[1]) == ("configuration::ChitchatConfig", "extra_liveness_predicate") and c[3]:
                pred = c[2] == "Some"
            t = c[1]
            if c[0] == "truth":
                pol = c[2]
                if t[0] == "un" and t[1] == "Not":
                    t, pol = t[2], not pol
                if t[0] == "call" and "Fn" in t[1]:
                    predval = pol
        mine = []
        for e in r.calls():
            if sym.strip_all_generics(e[1]).split("::")[-1] == "insert" and "BTreeMap" in e[1]:
                recv = T.resolve_locals(eng, r.store, e[2][0])
                if any(x[0] == "call" and (x[1], x[3]) == fresh for x in T.subterms(recv)):
                    mine.append((T.resolve_locals(eng, r.store, e[2][1]), T.resolve_locals(eng, r.store, e[2][2])))
        want = present is True and (pred is False or (pred is True and predval is True))
        rep.obligation((len(mine) == 1) == want and len(mine) <= 1 and present is not None, "C13/R13.3/sent-filter",
                       "entry published=%s when state present=%s, predicate configured=%s, predicate value=%s" % (bool(mine), present, pred, predval),
                       where(nl.fn), sample="present=%s predicate=%s/%s -> %s" % (present, pred, predval, "listed" if want else "dropped"))
        ok_all = ok_all and ((len(mine) == 1) == want)
        for k, v in mine:
            from_keys = any(x == cur for x in T.subterms(k))
            rep.obligation(from_keys, "C13/R13.3/sent-key", "published under key %s" % sym.fmt(k)[:60], where(nl.fn))
            vok = (v[0] == "agg" and v[1] == NS or T.mentions_field(v, "std::option::Option", "0")) and any(x[0] == "call" and x[1] == NSF for x in T.subterms(v))
            rep.obligation(vok, "C13/R13.3/sent-value", "published value is not a clone of the member's current state", where(nl.fn),
                           sample="value = node_state.clone()")
            ok_all = ok_all and from_keys and vok
    return ok_all and n_rows > 0


def loop_built_current(rep, nl, eng, row, cur, LN, NSF):
    """the compared map when it is built by a for loop with insert: every insert into the compared local adds (id.clone(),
    node_state(id).max_version()) for an id of live_nodes() whose state is present; a path without state adds nothing"""
    # the local that holds `cur`
    holders = [root for root, v in row.store.items() if root[0] == "L" and v == cur]
    if not holders:
        return False
    items = [(r, a) for r, a in T.collection_items(eng, nl.rows) if any(
        c[0] == "variant" and c[1][0] == "call" and c[1][1].endswith("::next") and c[2] == "Some" and c[3] and any(
            x[0] == "call" and x[1] == LN for x in T.subterms(T.resolve_locals(eng, r.store, c[1]))) for c in r.cond)]
    if not items:
        return False
    ok_all = True
    seen = set()
    for r, adds in items:
        present = None
        elem = None
        for c in r.cond:
            if c[0] == "variant" and c[1][0] == "call" and c[1][1] == NSF and c[3]:
                present = c[2] == "Some"
                elem = T.resolve_locals(eng, r.store, c[1][2][1])
        seen.add(present)
        if present:
            ok = len(adds) == 1 and adds[0][1] is not None
            if ok:
                k, v = adds[0]
                el = elem
                while el[0] in ("ptr", "obj") and el[1][0] == "D" and (el[0] == "obj" or not el[2]):
                    el = el[1][1]
                kok = k == el or (k[0] == "agg" and k[1] == "types::ChitchatId" and all(fv == sym.proj(el, F("types::ChitchatId", fn_)) or fv == ("proj", ("obj", ("D", el)), F("types::ChitchatId", fn_)) for fn_, fv in k[3]))
                rep.obligation(kok, "C13/R13.3/current-key", "the compared map is keyed by %s, not by the full member id" % sym.fmt(k)[:80], where(nl.fn),
                               sample="key = member id (clone)")
                vok = T.last_field(v) == (NS, "max_version") and any(x[0] == "call" and x[1] == NSF for x in T.subterms(v))
                rep.obligation(vok, "C13/R13.3/current-value", "the compared value is %s, not the member's max_version" % sym.fmt(v)[:60], where(nl.fn),
                               sample="value = node_state.max_version()")
                ok = kok and vok
            ok_all = ok_all and ok
        elif present is False:
            rep.obligation(not adds, "C13/R13.3/current-absent", "a live id without state still contributes", where(nl.fn))
            ok_all = ok_all and not adds
        else:
            ok_all = False
    return ok_all and seen == {True, False}


def r13_4(ctx, rep, roles):
    r = rep.rule("R13.4", "accessors clone the receiver created with the sender")
    fx = ctx.fx
    acc = [f for f in fx.methods_of("Chitchat") if f.get("inputs") == ["&Chitchat"] and ("watch::Receiver" in f.get("output", "") or "WatchStream" in f.get("output", ""))]
    eng = sym.Engine(fx)
    for f in acc:
        for row in eng.table(f["id"], arg_terms={1: ("ptr", ("S", "self"), ())}):
            ok = T.mentions_field(row.ret, "Chitchat", "live_nodes_watcher_rx") if row.ret is not None else False
            rep.obligation(ok, "C13/R13.4/accessor/%s" % f["id"].split("::")[-1], "%s does not hand out the live-nodes receiver" % f["id"], where(f),
                           sample="%s -> clone of live_nodes_watcher_rx" % f["id"].split("::")[-1])
    rep.floor("accessors", len(acc), 2)
    # constructor: (tx, rx) = watch::channel(..)
    for s in inv.aggregates(fx, "Chitchat"):
        f = fx.fns[s.fn]
        eng2 = sym.Engine(fx, inline_only=set(getattr(fx, "new_helpers", ())))
        rows = eng2.table(s.fn)
        for row in rows:
            aggs = []
            for e in row.events:
                if e[0] in ("write", "lwrite"):
                    aggs += T.find_aggs(e[3], "Chitchat")
            for a in aggs[:1]:
                tx, rx = T.field(a, "live_nodes_watcher_tx"), T.field(a, "live_nodes_watcher_rx")
                ok = tx is not None and rx is not None and tx[0] == "proj" and rx[0] == "proj" and tx[1] == rx[1] and tx[1][0] == "call" and tx[1][1].endswith("watch::channel")
                rep.obligation(ok, "C13/R13.4/channel-pair", "sender and receiver do not come from one watch::channel call", s.where(),
                               sample="(tx, rx) = watch::channel(BTreeMap::new())")
    rep.instance(len(acc))
