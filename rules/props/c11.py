"""C11 — liveness needs fresh evidence (DESIGN §3 C11)."""
import itertools
from ..core import sym, tables as T, orderenum as oe, callgraph, inventory as inv
from ..core.anchors import where
from ..roles import Roles, NS, SW, FD
from .. import models
from ..models import ModelError, F

LEVEL = "other"
EXPLANATION = (
    "Evidence rules decided on extracted tables: (R11.1) try_set_heartbeat stores iff the stored value is 0 or the new one is "
    "strictly greater, returns true iff strictly greater and the stored value was non-zero (all orderings of the two values); "
    "FailureDetector::report_heartbeat has one production caller, on paths where try_set_heartbeat returned true and the id is "
    "not the node's own; SamplingWindow::report_heartbeat is only called from there; the (id, heartbeat) pair reported comes "
    "from one digest entry; (R11.2) the first accepted report only sets last_heartbeat, an interval is appended iff a previous "
    "report exists and the interval is <= max_interval, phi is None while no interval is recorded; (R11.3) the dead branch "
    "resets the window, reset clears the intervals but keeps last_heartbeat; (R11.4) catch-up is not evidence (= C18/R18.4); (R11.5) who may change a sampling window: SamplingWindow::reset is called only from update_node_liveness, samples are recorded only through the guarded report path, and the window / statistics fields are written only by their own methods (a second reset site, e.g. on catch-up, would flag a steadily heartbeating member dead). "
    "The accuracy bound (steady heartbeats never flagged) is a lemma over the checked formula shape (C10/R10.2), not a check.")
TRUSTED = ["lemma: intervals in [a,b], b <= max_interval => mean >= min(a, prior) => phi <= b/min(a, prior) (paper argument)"]
ASSUMPTIONS = ["timing of evaluations and floating-point rounding are not analysed",
               "reset_node zeroes the stored heartbeat (a lower heartbeat is then accepted once without counting as evidence) — "
               "outside the property's quantifier over digest sequences, recorded as an observation"]

HB = ("proj", ("proj", ("obj", ("S", "self")), F(NS, "heartbeat")), F("types::Heartbeat", "0"))
NEW = ("proj", ("obj", ("S", "new")), F("types::Heartbeat", "0"))


def run(ctx):
    rep = ctx.report
    fx = ctx.fx
    roles = Roles(fx)
    r11_1(ctx, rep, roles)
    r11_2(ctx, rep, roles)
    r11_3(ctx, rep, roles)
    r11_5(ctx, rep, roles)
    from .. import wrappers
    wrappers.fd_glue(ctx, rep, roles, "C11", "R11.6")
    wrappers.heartbeat_inc(ctx, rep, roles, "C11", "R11.7")
    from .. import identity
    identity.check(ctx, rep, "C11", "R11.8", ["hb-ord", "hb-clone", "id-eq", "id-hash"])
    identity.check_keys(ctx, rep, "C11", "R11.9", ["fd-sets", "cluster"])
    # "stays live at every evaluation" needs every member to BE evaluated at every pass (seed R3-C11-2)
    from . import c12
    c12.r12_2(ctx, rep, roles)
    ctx.report.rules[-1].id = "R11.10(R12.2)"
    r11_4(ctx, rep, roles)


def r11_1(ctx, rep, roles, P="C11"):
    r = rep.rule("R11.1", "freshness: try_set_heartbeat table; single guarded path into the failure detector")
    fx = ctx.fx
    fn = roles.try_set_heartbeat
    rep.anchor("try_set_heartbeat", where(fn))
    eng = sym.Engine(fx)
    rows = eng.table(fn["id"], arg_terms={1: ("ptr", ("S", "self"), ()), 2: ("obj", ("S", "new"))})
    tbl = T.Table([x for x in rows if x.exit == "return"])
    n = 0
    bad = None
    for stored, new in itertools.product(range(0, 5), repeat=2):
        n += 1
        asg = {HB: stored, NEW: new}
        try:
            sel = tbl.select(asg)
        except oe.NeedAtom as e:
            bad = bad or "decision depends on %s" % sym.fmt(e.atom)[:80]
            continue
        if len(sel) != 1:
            bad = bad or "%d rows for stored=%d new=%d" % (len(sel), stored, new)
            continue
        row = sel[0]
        ret = oe.ev(row.ret, asg)
        ws = [e for e in row.writes() if T.mentions_field(("ptr", e[1], e[2]), NS, "heartbeat")]
        wrote = bool(ws)
        want_ret = stored != 0 and new > stored
        want_write = stored == 0 or new > stored
        if ret != want_ret:
            bad = bad or "stored=%d new=%d returns %s (fresh evidence must be strictly higher than a known non-zero value)" % (stored, new, ret)
        if wrote != want_write:
            bad = bad or "stored=%d new=%d %s the heartbeat" % (stored, new, "overwrites" if wrote else "does not store")
        for e in ws:
            v = e[3]
            if v != ("obj", ("S", "new")) and oe.ev(T.rewrite(v, lambda t: None), asg) != new:
                bad = bad or "stores %s" % sym.fmt(v)[:60]
    rep.obligation(bad is None, P + "/R11.1/try_set_heartbeat", "try_set_heartbeat: %s" % bad, where(fn), evaluations=n,
                   sample="25 orderings: store iff stored==0 or new>stored; true iff stored!=0 and new>stored")
    # single guarded path into the failure detector
    try:
        hr = models.HeartbeatReport(fx, roles)
    except ModelError as e:
        rep.violation(P + "/R11.1/" + e.key, e.msg, e.where)
        return
    rep.anchor("report_heartbeat", where(hr.fn))
    n_rep = 0
    for row in hr.rows:
        reps = hr.calls(row, "fd_report")
        tsh = hr.calls(row, "try_set_heartbeat")
        if not reps:
            continue
        n_rep += 1
        ok = len(reps) == 1 and len(tsh) == 1 and row.events.index(tsh[0]) < row.events.index(reps[0])
        fresh = False
        for c in row.cond:
            if c[0] == "truth" and c[1][0] == "call" and c[1][1] == hr.keep["try_set_heartbeat"] and c[2] is True:
                fresh = True
        rep.obligation(ok and fresh, P + "/R11.1/report-without-fresh-heartbeat",
                       "the failure detector is told about a heartbeat on a path where try_set_heartbeat did not return true", where(hr.fn),
                       sample="fd.report_heartbeat only after try_set_heartbeat(..) == true")
        # same id, same heartbeat value
        rep.obligation(reps[0][2][1] == ("ptr", ("S", "id"), ()) and tsh[0][2][1] == ("obj", ("S", "hb")),
                       P + "/R11.1/report-args", "the heartbeat reported / stored is not the one received for that id", where(hr.fn),
                       sample="try_set_heartbeat(received hb); fd.report_heartbeat(received id)")
        rep.obligation(hr.self_check(row) is False, P + "/R11.1/self-report", "a heartbeat for the node's own id reaches the failure detector",
                       where(hr.fn), sample="own id never reported")
    rep.floor("reporting-rows", n_rep, 2)
    cg = callgraph.CallGraph(fx)
    for cs in cg.callers_of(roles.fd_report_heartbeat["id"]):
        rep.obligation(cs.caller == hr.fn["id"], P + "/R11.1/fd-report-caller/%s" % cs.caller,
                       "FailureDetector::report_heartbeat is called from %s" % cs.caller, where(fx.fns[cs.caller], cs.line),
                       sample="fd.report_heartbeat called from Chitchat::report_heartbeat only")
    for cs in cg.callers_of(roles.sw_report_heartbeat["id"]):
        rep.obligation(cs.caller == roles.fd_report_heartbeat["id"], P + "/R11.1/sw-report-caller/%s" % cs.caller,
                       "SamplingWindow::report_heartbeat is called from %s" % cs.caller, where(fx.fns[cs.caller], cs.line),
                       sample="window.report_heartbeat called from fd.report_heartbeat only")
    for cs in cg.callers_of(roles.try_set_heartbeat["id"]):
        rep.obligation(cs.caller == hr.fn["id"], P + "/R11.1/try_set_heartbeat-caller/%s" % cs.caller,
                       "try_set_heartbeat is called from %s" % cs.caller, where(fx.fns[cs.caller], cs.line),
                       sample="try_set_heartbeat called from Chitchat::report_heartbeat only")
    for cs in cg.callers_of(hr.fn["id"]):
        rep.obligation(cs.caller == roles.report_heartbeats_in_digest["id"], P + "/R11.1/report_heartbeat-caller/%s" % cs.caller,
                       "Chitchat::report_heartbeat is called from %s" % cs.caller, where(fx.fns[cs.caller], cs.line),
                       sample="report_heartbeat called from report_heartbeats_in_digest only")
    # (id, heartbeat) of one digest entry
    rd = roles.report_heartbeats_in_digest
    eng2 = sym.Engine(fx, no_inline={hr.fn["id"]})
    n_pairs = 0
    for row in eng2.table(rd["id"], arg_terms={1: ("ptr", ("S", "self"), ()), 2: ("ptr", ("S", "digest"), ())}):
        for e in row.calls():
            if e[1] == hr.fn["id"]:
                n_pairs += 1
                idp, hbv = e[2][1], e[2][2]
                ok = idp[0] == "ptr" and idp[1][0] == "D" and idp[1][1][0] == "proj" and idp[1][1][2] == F("<tuple>", "0")
                item = idp[1][1][1] if ok else None
                ok = ok and hbv == ("proj", ("obj", ("D", ("proj", item, F("<tuple>", "1")))), F("digest::NodeDigest", "heartbeat"))
                rep.obligation(ok, P + "/R11.1/digest-pairing", "report_heartbeat(id, heartbeat) does not take both from the same digest entry: %s / %s" % (
                    sym.fmt(idp)[:60], sym.fmt(hbv)[:60]), where(rd), sample="report_heartbeat(entry.id, entry.heartbeat)")
    rep.floor("digest-report-sites", n_pairs, 1)
    rep.instance(n_rep + n_pairs)


def r11_2(ctx, rep, roles, P="C11"):
    r = rep.rule("R11.2", "sample admission: first report only sets last_heartbeat; an interval is appended iff a previous report "
                          "exists and interval <= max_interval; phi is None while no interval is recorded")
    fx = ctx.fx
    fn = roles.sw_report_heartbeat
    rep.anchor("window.report_heartbeat", where(fn))
    bas_append = [f for f in fx.fns.values() if f.get("impl_self") == "failure_detector::BoundedArrayStats" and f.get("inputs") == ["&mut failure_detector::BoundedArrayStats", "f64"]]
    eng = sym.Engine(fx, no_inline={f["id"] for f in bas_append})
    rows = [x for x in eng.table(fn["id"], arg_terms={1: ("ptr", ("S", "self"), ())}) if x.exit == "return"]
    LAST = ("proj", ("obj", ("S", "self")), F(SW, "last_heartbeat"))
    MAXI = ("proj", ("obj", ("S", "self")), F(SW, "max_interval"))
    seen = set()
    for row in rows:
        has_last = None
        within = None
        for c in row.cond:
            if c[0] == "variant" and c[1] == LAST and c[3]:
                has_last = c[2] == "Some"
            if c[0] == "truth" and c[1][0] == "op" and MAXI in (c[1][2], c[1][3]):
                t = c[1]
                other = t[2] if t[3] == MAXI else t[3]
                # other must be now - last  (duration_since(now, last))
                okd = other[0] in ("op", "call") and T.mentions_field(other, SW, "last_heartbeat") and any(
                    s[0] == "call" and s[1].endswith("Instant::now") for s in T.subterms(other) + [x for a in T.subterms(other) if a[0] == "ptr" for x in [eng.read_rp(models._St(row.store), a[1], a[2])]])
                if other[0] == "call" and not other[1].endswith("duration_since"):
                    okd = False
                if okd:
                    # evaluate the comparison as a predicate of (interval, max)
                    f = lambda x: T.R("iv") if x == other else (T.R("mx") if x == MAXI else None)
                    tt = T.rewrite(t, f)
                    try:
                        vals = [(oe.ev(tt, {T.R("iv"): a, T.R("mx"): b}) == c[2]) for a, b in ((1, 2), (2, 2), (3, 2))]
                    except oe.NeedAtom:
                        vals = None
                    if vals == [True, True, False]:
                        within = True
                    elif vals == [False, False, True]:
                        within = False
                    else:
                        within = "bad:%s" % vals
                else:
                    within = "bad-operand:%s" % sym.fmt(other)[:60]
        appended = [e for e in row.calls() if bas_append and e[1] == bas_append[0]["id"]]
        want = has_last is True and within is True
        seen.add((has_last, within))
        rep.obligation(bool(appended) == want and not (isinstance(within, str)), P + "/R11.2/append-rule",
                       "an interval is %s on the path previous-report=%s, within-max=%s" % ("recorded" if appended else "not recorded", has_last, within),
                       where(fn), sample="previous=%s within=%s -> %s" % (has_last, within, "append" if appended else "no append"))
        if appended:
            iv = appended[0][2][1]
            rep.obligation(iv[0] == "call" and iv[1].endswith("as_secs_f64"), P + "/R11.2/interval-unit",
                           "the recorded interval is %s" % sym.fmt(iv)[:60], where(fn), sample="interval recorded in seconds (f64)")
        lw = [e for e in row.writes() if e[2] == (F(SW, "last_heartbeat"),)]
        ok = len(lw) == 1 and sym.is_some(lw[0][3]) and lw[0][3][3][0][1][0] == "call" and lw[0][3][3][0][1][1].endswith("Instant::now")
        rep.obligation(ok, P + "/R11.2/last-heartbeat", "last_heartbeat is not set to now on every report", where(fn),
                       sample="last_heartbeat := Some(now)")
    rep.obligation({(True, True), (True, False), (False, None)} <= seen, P + "/R11.2/cases", "sample admission cases seen: %s" % sorted(map(str, seen)), where(fn))
    # phi is None while no interval
    ph = roles.sw_phi
    eng2 = sym.Engine(fx)
    prow = [x for x in eng2.table(ph["id"], arg_terms={1: ("ptr", ("S", "self"), ())}) if x.exit == "return"]
    IDX = ("proj", ("proj", ("obj", ("S", "self")), F(SW, "intervals")), F("failure_detector::BoundedArrayStats", "index"))
    FILLED = ("proj", ("proj", ("obj", ("S", "self")), F(SW, "intervals")), F("failure_detector::BoundedArrayStats", "is_filled"))
    n = 0
    for row in prow:
        n += 1
        conds = row.cond
        try:
            empty = all(oe.holds(c, {IDX: 0, FILLED: False}) for c in conds if c[0] == "truth" and not [a for a in oe.atoms_of(c[1], []) if a not in (IDX, FILLED)])
        except oe.NeedAtom:
            empty = False
        ev_conds = [c for c in conds if c[0] == "truth" and not [a for a in oe.atoms_of(c[1], []) if a not in (IDX, FILLED)]]
        if empty and ev_conds:
            rep.obligation(sym.is_none(row.ret), P + "/R11.2/phi-none-when-empty", "phi is defined although no interval is recorded", where(ph),
                           sample="len = 0 -> phi = None")
        has_last = None
        for c in conds:
            if c[0] == "variant" and c[1] == LAST and c[3]:
                has_last = c[2]
        if has_last == "None":
            rep.obligation(sym.is_none(row.ret), P + "/R11.2/phi-none-without-heartbeat", "phi is defined without any heartbeat", where(ph),
                           sample="no heartbeat -> phi = None")
    rep.floor("phi-rows", n, 4)
    rep.instance(len(rows) + n)


def r11_3(ctx, rep, roles, P="C11"):
    r = rep.rule("R11.3", "the window is cleared while dead: dead branch calls reset; reset clears intervals, keeps last_heartbeat")
    fx = ctx.fx
    unl = roles.fd_update_node_liveness
    eng = sym.Engine(fx, no_inline={roles.fd_phi["id"], roles.sw_reset["id"]}, opaque_pure={roles.fd_phi["id"]})
    rows = [x for x in eng.table(unl["id"], arg_terms={1: ("ptr", ("S", "self"), ()), 2: ("ptr", ("S", "id"), ())}) if x.exit == "return"]
    n_dead = 0
    for row in rows:
        live_ins = [e for e in row.calls() if sym.strip_all_generics(e[1]).endswith("HashSet::insert") and e[2][0] == ("ptr", ("S", "self"), (F(FD, "live_nodes"),))]
        if live_ins:
            continue
        n_dead += 1
        resets = [e for e in row.calls() if e[1] == roles.sw_reset["id"]]
        sample_present = None
        for c in row.cond:
            if c[0] == "variant" and c[1][0] == "call" and "get_mut" in c[1][1] and c[3]:
                sample_present = c[2] == "Some"
        rep.obligation(sample_present is not None, P + "/R11.3/reset-on-dead",
                       "a dead-branch path does not even look up the member's sampling window (it keeps its intervals)", where(unl),
                       sample="dead branch always looks up the window")
        rep.obligation(bool(resets) == (sample_present is True), P + "/R11.3/reset-on-dead",
                       "dead branch with window present=%s resets %d times" % (sample_present, len(resets)), where(unl),
                       sample="dead & window present -> reset")
    rep.floor("dead-rows", n_dead, 2)
    rs = roles.sw_reset
    eng2 = sym.Engine(fx)
    for row in eng2.table(rs["id"], arg_terms={1: ("ptr", ("S", "self"), ())}):
        ws = row.writes()
        touched_last = [e for e in ws if F(SW, "last_heartbeat") in e[2]]
        rep.obligation(not touched_last, P + "/R11.3/reset-keeps-last", "reset changes last_heartbeat", where(rs), sample="reset keeps last_heartbeat")
        def fname(path):
            fs = [x for x in path if x[0] == "f"]
            return fs[-1][2] if fs else None
        fields = {fname(e[2]) for e in ws if e[2]}
        rep.obligation({"index", "is_filled", "sum"} <= fields, P + "/R11.3/reset-clears", "reset clears only %s" % sorted(fields), where(rs),
                       sample="reset: index, is_filled, sum cleared")
        for e in ws:
            nm = fname(e[2])
            want = {"index": 0, "is_filled": False, "sum": 0}.get(nm)
            if want is not None:
                rep.obligation(e[3][0] == "c" and e[3][1] == want, P + "/R11.3/reset-value/%s" % nm, "reset sets %s := %s" % (nm, sym.fmt(e[3])), where(rs))
    rep.instance(n_dead)


def r11_4(ctx, rep, roles):
    r = rep.rule("R11.4", "catch-up is not evidence (no call path from catch-up to the heartbeat sinks)")
    from . import c18
    c18.r18_4(ctx, rep, roles, roles.catchup)


BAS = "failure_detector::BoundedArrayStats"


def r11_5(ctx, rep, roles, P="C11"):
    r = rep.rule("R11.5", "who may change a sampling window: reset only from the dead branch of update_node_liveness, samples only from "
                          "the guarded report path, fields only by the window's own methods")
    fx = ctx.fx
    cg = callgraph.CallGraph(fx)
    # callee role -> the only functions allowed to call it (by role), read off the pinned tree and confirmed by hand
    MAY_CALL = [
        ("sw_reset", roles.sw_reset, {roles.fd_update_node_liveness["id"]}, "a reset outside the dead branch discards the intervals of a live member"),
        ("sw_report_heartbeat", roles.sw_report_heartbeat, {roles.fd_report_heartbeat["id"]}, "samples are recorded only behind the freshness guard"),
        ("fd_report_heartbeat", roles.fd_report_heartbeat, {roles.report_heartbeat["id"]}, "single guarded path into the failure detector (R11.1)"),
        ("fd_update_node_liveness", roles.fd_update_node_liveness, {roles.update_nodes_liveness["id"]}, "evaluation only from the liveness pass"),
    ]
    n = 0
    for nm, callee, allowed, why in MAY_CALL:
        callers = {fx.root_fn(c.caller) for c in cg.callers_of(callee["id"])}
        n += len(callers)
        extra = sorted(callers - allowed)
        rep.obligation(not extra and callers, P + "/R11.5/caller/%s" % nm, "%s is also called from %s (%s)" % (callee["id"], extra or "nowhere", why),
                       where(callee), sample="%s <- %s" % (nm, sorted(x.split("::")[-1] for x in allowed)))
    OWN = [(SW, "intervals"), (SW, "last_heartbeat"), (BAS, "sum"), (BAS, "index"), (BAS, "is_filled"), (BAS, "values")]
    for adt, fl in OWN:
        ws = {fx.root_fn(s.fn) for s in inv.field_writes(fx, adt, fl) if s.kind in ("assign", "mutborrow", "calldest")}
        foreign = sorted(w for w in ws if not w.startswith(adt + "::"))
        n += len(ws)
        rep.obligation(not foreign and ws, P + "/R11.5/field/%s.%s" % (adt.split("::")[-1], fl), "%s.%s is written by %s" % (adt, fl, foreign or "nobody"), None,
                       sample="%s.%s written only by %s methods" % (adt.split("::")[-1], fl, adt.split("::")[-1]))
    ws = {fx.root_fn(s.fn) for s in inv.field_writes(fx, FD, "node_samples") if s.kind in ("assign", "mutborrow", "calldest")}
    allowed = {roles.fd_garbage_collect["id"], roles.fd_get_or_create_window["id"], roles.fd_update_node_liveness["id"]}
    rep.obligation(ws <= allowed | {w for w in ws if w.endswith("FailureDetector::new")}, P + "/R11.5/field/node_samples",
                   "FailureDetector.node_samples is mutably reached from %s" % sorted(ws - allowed), None,
                   sample="node_samples: garbage_collect (remove), get_or_create_sampling_window (insert), update_node_liveness (get_mut)")
    rep.floor("window-mutation-sites", n, 14)
    rep.instance(n)
