"""C01 — convergence: per-handshake progress and necessary structural conditions (DESIGN §3 C01)."""
from ..core import sym, tables as T, orderenum as oe, callgraph
from ..core.anchors import where
from ..roles import Roles, NS
from .. import models
from ..models import ModelError, F
from . import c14

LEVEL = "other"
EXPLANATION = (
    "The bounded-handshake convergence claim over fair schedules is a liveness property of histories and is NOT decided. "
    "Decided: the strict-advance clause (a complete handshake in which one side is ahead applies a delta that strictly raises "
    "(gc, max) — C14's agreement obligations re-evaluated here); (R01.1) the empty tail: when no key-value of an offered "
    "member was added, try_set_max_version(copy max) is called, the 'added' flag is false initially and only set after a "
    "successful add, and Delta::get_operations re-emits SetMaxVersion iff the member delta has no key-values and max > 0; "
    "(R01.2) the exclusion set used for the digest and both deltas comes from scheduled_for_deletion_nodes (dead-but-not-"
    "scheduled members stay advertised); (R01.3) handshake shape: SYN -> SYN-ACK(own digest, delta computed from the "
    "received digest); SYN-ACK -> apply received delta then ACK(delta computed from the received digest); ACK -> apply; (R01.4 = C07/R07.4) truncation cuts only the tail: after a refused key-value nothing else (in particular no SetMaxVersion for that member, no further member) is added, so a receiver never passes versions it was not given.")
TRUSTED = ["induction from per-handshake strict advance to convergence is NOT part of the check"]
ASSUMPTIONS = ["the digest and any single key-value fit in one datagram (property's own assumption)"]


def run(ctx):
    rep = ctx.report
    fx = ctx.fx
    roles = Roles(fx)
    K = 6 if ctx.tier == "quick" else 8
    try:
        adm = models.Admission(fx, roles)
        app = models.Apply(fx, roles)
        snd = models.Sender(fx, roles)
        pm = models.ProcessMessage(fx, roles)
    except ModelError as e:
        rep.rule("R01.0", "table extraction")
        rep.violation("C01/" + e.key, e.msg, e.where)
        return
    c14.r14_1(ctx, rep, snd, K, P="C01")
    c14.r14_3(ctx, rep, snd, adm, app, K, P="C01")
    r01_1(ctx, rep, roles, snd)
    r01_2(ctx, rep, roles, pm)
    r01_3(ctx, rep, roles, pm)
    # truncation must only cut the tail: a refused key-value followed by SetMaxVersion / further members would make the
    # receiver pass versions it never got (seed R2-C01-2)
    from . import c07
    c07.r07_4(ctx, rep, roles, snd)
    ctx.report.rules[-1].id = "R01.4(R07.4)"
    from .. import wrappers
    wrappers.digest_wrapper(ctx, rep, roles, "C01", "R01.5")
    # a reordered / stale delta must not be admitted over a hole (seed R3-C01-1)
    c14.r14_5(ctx, rep, adm, P="C01", rule="R01.6")


def r01_1(ctx, rep, roles, snd):
    r = rep.rule("R01.1", "empty tail: an offered member for which no key-value was added gets try_set_max_version; the wire "
                          "form re-emits SetMaxVersion iff the member delta is empty and max > 0")
    fx = ctx.fx
    add_kv, set_max, add_node = roles.ser_add_kv["id"], roles.ser_set_max["id"], roles.ser_add_node["id"]
    # rows of the emission phase that reach the end of a member's key-value loop
    n_set = 0
    flags = set()
    empties = set()
    for row in snd.emit_rows:
        sm = [e for e in row.calls() if e[1] == set_max]
        for e in sm:
            n_set += 1
            idx = row.events.index(e)
            # guarded by the false value of a loop-carried flag whose entry value is false
            guard = None
            for c in row.cond:
                if c[0] == "truth" and c[1][0] == "loopvar" and c[2] is False and c[1][2] == sym.FALSE:
                    guard = c[1]
            if guard is None:
                # the other way to say "no key-value was added": the member's key-value iterator was empty before the loop
                # (`let mut it = stale_kvs.peekable(); let nothing = it.peek().is_none();`)
                for c in row.cond:
                    if c[0] == "variant" and c[3] and c[2] == "None" and c[1][0] == "call" and sym.strip_all_generics(c[1][1]).split("::")[-1] == "peek":
                        guard = ("peek", c[1])
                        empties.add(c[1][1])
            if guard is not None and guard[0] == "peek":
                rep.obligation(True, "", "", sample="try_set_max_version guarded by `key-value iterator is empty` (peek() is None)")
                continue
            rep.obligation(guard is not None, "C01/R01.1/set-max-guard",
                           "try_set_max_version is not guarded by 'no key-value was added' (a flag that starts false)", where(snd.fn, e[3][1]),
                           sample="try_set_max_version guarded by !added (added starts false)")
            if guard is not None:
                flags.add(guard[1][2])
    rep.floor("try_set_max_version-paths", n_set, 1)
    # paths that leave the key-value loop of an offered member with the flag false must call try_set_max_version
    for row in snd.emit_rows:
        neg = [c for c in row.cond if c[0] == "truth" and c[1][0] == "loopvar" and c[1][1][2] in flags and c[2] is False]
        if neg and row.exit in ("backedge", "return"):
            has = any(e[1] == set_max for e in row.calls())
            rep.obligation(has, "C01/R01.1/set-max-missing", "a member with no added key-value is left without SetMaxVersion", where(snd.fn),
                           sample="!added => try_set_max_version called")
    # the flag is only ever set to true, and only after a successful try_add_kv
    n_w = 0
    for row in snd.rows:
        for e in row.events:
            if e[0] == "lwrite" and e[2] == () and sym.fmt_root(e[1]) in flags and row.events.index(e) > 0:
                prior_loop = [x for x in row.events[:row.events.index(e)] if x[0] == "loop"]
                if e[3] == sym.FALSE:
                    continue  # (re)initialisation before the key-value loop
                n_w += 1
                ok = e[3] == sym.TRUE
                adds = [x for x in row.calls() if x[1] == add_kv and row.events.index(x) < row.events.index(e)]
                v = e[3]
                if v[0] == "op" and v[1] == "BitOr" and adds:
                    # `added |= ser.try_add_kv(..)`: the flag turns true exactly with a successful try_add_kv
                    a, b = T.resolve_locals(snd.eng, row.store, v[2]), T.resolve_locals(snd.eng, row.store, v[3])
                    is_flag = lambda t: t == sym.FALSE or (t[0] == "loopvar" and len(t) > 2 and t[2] == sym.FALSE)
                    is_add = lambda t: t[0] == "call" and t[1] == add_kv
                    rep.obligation((is_flag(a) and is_add(b)) or (is_flag(b) and is_add(a)), "C01/R01.1/flag-discipline",
                                   "the 'added' flag is updated with %s" % sym.fmt(v)[:80], where(snd.fn, e[4][1] if e[4] else None),
                                   sample="added |= try_add_kv(..)")
                    continue
                succ = False
                for c in row.cond:
                    if c[0] == "truth" and c[1][0] == "call" and c[1][1] == add_kv and c[2] is True:
                        succ = True
                rep.obligation(ok and bool(adds) and succ, "C01/R01.1/flag-discipline",
                               "the 'added' flag is set to %s without a successful try_add_kv" % sym.fmt(e[3]), where(snd.fn, e[4][1] if e[4] else None),
                               sample="added := true only after try_add_kv returned true")
    # emptiness-guarded form: every path on which the peeked iterator is empty and the member is left must call try_set_max_version
    for row in snd.emit_rows:
        emp = [c for c in row.cond if c[0] == "variant" and c[3] and c[2] == "None" and c[1][0] == "call" and c[1][1] in empties]
        # (peek() == None and a later next() == Some on the same pass is not a path of the program)
        entered = [c for c in row.cond if c[0] == "variant" and c[3] and c[2] == "Some" and c[1][0] == "call" and "Peekable" in c[1][1] and c[1][1].endswith("::next")]
        if emp and not entered and row.exit in ("backedge", "return"):
            rep.obligation(any(e[1] == set_max for e in row.calls()), "C01/R01.1/set-max-missing", "a member with no key-value to add is left without SetMaxVersion",
                           where(snd.fn), sample="empty key-value iterator => try_set_max_version called")
    if flags or not empties:
        rep.floor("flag-writes", n_w, 1)
    # wire form
    go = [f for f in fx.fns.values() if f.get("impl_self") == "delta::Delta" and not f.get("impl_trait")
          and f.get("inputs") == ["&delta::Delta"] and f["kind"] == "method"]
    clos = []
    for f in go:
        clos += [c for c in fx.closures_of(f["id"], recursive=False)]
    # the per-member generator may be a named private function instead of a closure
    named = [h for h in sorted(getattr(fx, "new_helpers", ())) if fx.fns[h].get("inputs") == ["&delta::NodeDelta"]
             and any(g["id"] in fx.attributed(h) for g in go)]
    eng = sym.Engine(fx)
    found = False
    for c in clos + named:
        if c in named:
            rows = eng.table(c, arg_terms={1: ("ptr", ("S", "nd"), ())})
        else:
            rows = eng.table(c, arg_terms={1: ("ptr", ("S", "env"), ()), 2: ("ptr", ("S", "nd"), ())})
        for row in rows:
            if row.exit != "return":
                continue
            aggs = T.find_aggs(row.ret, "delta::DeltaOpRef")
            smv = [a for a in aggs if a[2] == "SetMaxVersion"]
            empty = None
            pos = None
            for cnd in row.cond:
                if cnd[0] == "truth" and cnd[1][0] == "call" and cnd[1][1].endswith("is_empty"):
                    empty = cnd[2]
                if cnd[0] == "truth" and cnd[1][0] == "op" and T.mentions_field(cnd[1], "delta::NodeDelta", "max_version"):
                    try:
                        pos = oe.ev(T.rewrite(cnd[1], lambda t: T.R("mv") if T.last_field(t) == ("delta::NodeDelta", "max_version") else None),
                                    {T.R("mv"): 1}) == cnd[2] and oe.ev(T.rewrite(cnd[1], lambda t: T.R("mv") if T.last_field(t) == ("delta::NodeDelta", "max_version") else None), {T.R("mv"): 0}) != cnd[2]
                    except Exception:
                        pos = None
            if empty is None:
                continue
            found = True
            want = empty is True and pos is True
            ok = bool(smv) == want
            if smv:
                ok = ok and T.field(smv[0], "max_version") == ("proj", ("obj", ("S", "nd")), F("delta::NodeDelta", "max_version"))
            rep.obligation(ok, "C01/R01.1/wire-set-max-version",
                           "Delta::get_operations emits SetMaxVersion=%s when key_values empty=%s and max>0=%s" % (bool(smv), empty, pos),
                           where(fx.fns[c]), sample="get_operations: SetMaxVersion iff empty and max_version > 0")
    if not found:
        # loop style: `for node_delta in &self.node_deltas { ops.push(Node{..}); for kv in .. { ops.push(KeyValue) }; if kvs.is_empty() && max > 0 { ops.push(SetMaxVersion) } }`
        for f in go:
            frows = eng.table(f["id"], arg_terms={1: ("ptr", ("S", "self"), ())})
            for row in frows:
                empty = pos = None
                for cnd in row.cond:
                    t = T.resolve_locals(eng, row.store, cnd[1]) if cnd[0] == "truth" else None
                    if t is not None and t[0] == "call" and t[1].endswith("is_empty") and T.mentions_field(t, "delta::NodeDelta", "key_values"):
                        empty = cnd[2]
                    if t is not None and t[0] == "op" and T.mentions_field(t, "delta::NodeDelta", "max_version"):
                        try:
                            rw = lambda u: T.R("mv") if T.last_field(u) == ("delta::NodeDelta", "max_version") else None
                            pos = oe.ev(T.rewrite(t, rw), {T.R("mv"): 1}) == cnd[2] and oe.ev(T.rewrite(t, rw), {T.R("mv"): 0}) != cnd[2]
                        except Exception:
                            pos = None
                if empty is None:
                    continue
                pushed = []
                for e in row.calls():
                    if sym.strip_all_generics(e[1]).split("::")[-1] == "push" and "Vec" in e[1]:
                        v = T.resolve_locals(eng, row.store, e[2][1])
                        if v[0] == "agg" and v[1] == "delta::DeltaOpRef":
                            pushed.append(v)
                smv = [a for a in pushed if a[2] == "SetMaxVersion"]
                found = True
                want = empty is True and pos is True
                ok = bool(smv) == want
                if smv:
                    ok = ok and T.last_field(T.field(smv[0], "max_version")) == ("delta::NodeDelta", "max_version")
                rep.obligation(ok, "C01/R01.1/wire-set-max-version",
                               "Delta::get_operations emits SetMaxVersion=%s when key_values empty=%s and max>0=%s" % (bool(smv), empty, pos),
                               where(f), sample="get_operations: SetMaxVersion iff empty and max_version > 0")
    rep.obligation(found, "C01/R01.1/wire-anchor", "cannot find the op generator of Delta (get_operations)")
    rep.instance(n_set + n_w)


def sched_source(pm, row, arg):
    """value behind a `&HashSet<&ChitchatId>` argument in a process_message/create_syn row"""
    if arg[0] != "ptr":
        return arg
    return pm.eng.read_rp(models._St(row.store), arg[1], arg[2])


def _fresh_container(term):
    """the `X::new()` / `default()` / `with_capacity()` call a loop-filled local container starts from"""
    for x in T.subterms(term):
        if x[0] == "call" and not x[1].startswith(("havoc:", "fold:")) and sym.strip_all_generics(x[1]).split("::")[-1] in ("new", "default", "with_capacity") \
                and ("HashSet" in x[1] or "BTreeSet" in x[1]):
            return (x[1], x[3])
    return None


def is_scheduled_set(pm, term, sched_id, eng=None, loop_rows=None):
    """the exclusion set is scheduled_for_deletion_nodes() collected — or a fresh set filled, unconditionally, by a loop over it"""
    calls = [s for s in T.subterms(term) if s[0] == "call"]
    if any(c[1] == sched_id for c in calls) and all(("dead_nodes" not in c[1]) for c in calls):
        return True
    eng = eng or getattr(pm, "eng", None)
    loop_rows = loop_rows if loop_rows is not None else getattr(pm, "loop_rows", [])
    fresh = _fresh_container(term)
    if fresh is None or not loop_rows:
        return False
    fills = 0
    for row, adds in T.collection_items(eng, loop_rows):
        for e in row.calls():
            if sym.strip_all_generics(e[1]).split("::")[-1] == "insert" and ("HashSet" in e[1] or "BTreeSet" in e[1]):
                recv = T.resolve_locals(eng, row.store, e[2][0])
                if _fresh_container(recv) != fresh:
                    continue
                key = T.resolve_locals(eng, row.store, e[2][1])
                from_sched = any(x[0] == "call" and x[1] == sched_id for x in T.subterms(key))
                extra = [c for c in row.cond if c[0] == "truth"]
                stale = [c for c in extra if any(x[0] == "call" and x[1] == sched_id for x in T.subterms(T.resolve_locals(eng, row.store, c[1])))]
                if not from_sched or stale:
                    return False
                fills += 1
    return fills > 0


def r01_2(ctx, rep, roles, pm):
    r = rep.rule("R01.2", "dead-but-not-scheduled members stay advertised: the exclusion set handed to compute_digest and to "
                          "compute_delta at every site is built from scheduled_for_deletion_nodes")
    fx = ctx.fx
    sched = roles.scheduled_for_deletion_nodes
    n = 0
    for row in pm.rows:
        for role, argi in (("compute_digest", 1), ("compute_delta", 3)):
            for e in pm.calls(row, role):
                n += 1
                src = sched_source(pm, row, e[2][argi])
                ok = is_scheduled_set(pm, src, sched["id"])
                rep.obligation(ok, "C01/R01.2/exclusion-set/%s" % role,
                               "%s is given the exclusion set %s, not the scheduled-for-deletion members" % (role, sym.fmt(src)[:100]),
                               where(pm.fn, e[3][1]), sample="%s(.., exclusion = collect(scheduled_for_deletion_nodes()))" % role)
    # create_syn_message
    cs = roles.create_syn
    eng = sym.Engine(fx, no_inline={roles.compute_digest["id"], sched["id"]})
    cs_rows = eng.table(cs["id"], arg_terms={1: ("ptr", ("S", "self"), ())})
    for row in cs_rows:
        if row.exit == "backedge":
            continue
        for e in row.calls():
            if e[1] == roles.compute_digest["id"]:
                n += 1
                src = e[2][1]
                if src[0] == "ptr":
                    src = eng.read_rp(models._St(row.store), src[1], src[2])
                rep.obligation(is_scheduled_set(pm, src, sched["id"], eng=eng, loop_rows=[x for x in cs_rows if x.exit == "backedge"]), "C01/R01.2/exclusion-set/create_syn",
                               "create_syn_message builds its digest with exclusion set %s" % sym.fmt(src)[:100], where(cs, e[3][1]),
                               sample="create_syn: compute_digest(exclusion = collect(scheduled_for_deletion_nodes()))")
    rep.floor("exclusion-set-sites", n, 4)
    # the Chitchat-level accessor forwards to the failure detector's scheduled set
    eng2 = sym.Engine(fx, no_inline={roles.fd_scheduled["id"]})
    rows = eng2.table(sched["id"], arg_terms={1: ("ptr", ("S", "self"), ())})
    ok = len(rows) == 1 and rows[0].ret is not None and rows[0].ret[0] == "call" and rows[0].ret[1] == roles.fd_scheduled["id"]
    rep.obligation(ok, "C01/R01.2/forwarding", "Chitchat::scheduled_for_deletion_nodes does not forward to the failure detector's "
                   "scheduled set", where(sched), sample="scheduled_for_deletion_nodes() = failure_detector.scheduled_for_deletion_nodes()")
    # compute_digest filters with the set it is given: an entry is added <=> its id is not in the exclusion set, whatever the style
    # (iterator chain ending in collect(), or a for loop with insert)
    dg = roles.compute_digest
    eng3 = sym.Engine(fx, no_inline={roles.node_digest["id"]})
    rows3 = eng3.table(dg["id"], arg_terms={1: ("ptr", ("S", "self"), ()), 2: ("ptr", ("S", "excl"), ())})
    items = T.collection_items(eng3, rows3)
    okf = bool(items)
    # each loop-body row: conditions over contains(excl, id) / is_empty(excl); evaluated on the consistent assignments of
    # (member, empty) — empty implies not member — the row that applies must add the entry iff the id is not a member
    parsed = []
    for row, adds in items:
        lits = []
        for c in row.cond:
            if c[0] == "variant" and c[1][0] == "call" and c[1][1].endswith("::next"):
                continue
            t, pol = c[1], (c[2] if c[0] == "truth" else None)
            if c[0] == "truth" and t[0] == "un" and t[1] == "Not":
                t, pol = t[2], not pol
            nm = sym.strip_all_generics(t[1]).split("::")[-1] if t[0] == "call" else None
            on_excl = t[0] == "call" and t[2] and any(x[0] in ("obj", "ptr") and x[1] == ("S", "excl") for x in T.subterms(t[2][0]))
            if c[0] == "truth" and on_excl and nm in ("contains", "is_empty"):
                lits.append((nm, pol))
            else:
                okf = False
        parsed.append((lits, len(adds)))
    for member, empty in ((False, False), (False, True), (True, False)):
        applies = [n_add for lits, n_add in parsed if all((member if nm == "contains" else empty) == pol for nm, pol in lits)]
        if not applies or any(n_add != (0 if member else 1) for n_add in applies):
            okf = False
    rep.obligation(okf, "C01/R01.2/digest-filter", "compute_digest does not keep exactly the members outside the exclusion set", where(dg),
                   sample="compute_digest: filter(!exclusion.contains(id))")
    rep.instance(n)


def r01_3(ctx, rep, roles, pm):
    r = rep.rule("R01.3", "handshake shape per message arm")
    n = 0
    MSG = ("obj", ("S", "msg"))

    def received(term, variant, field):
        """term denotes (a reference to) msg@variant.field"""
        want = ("proj", ("proj", MSG, ("v", variant)), ("f", "message::ChitchatMessage", field))
        if term == want:
            return True
        return False

    def deref_arg(row, a):
        if a[0] == "ptr":
            return pm.eng.read_rp(models._St(row.store), a[1], a[2])
        return a
    want_ret = {"Syn": ("SynAck", "BadCluster"), "SynAck": ("Ack",), "Ack": (None,), "BadCluster": (None,)}
    for v, rows in pm.by_variant.items():
        if v is None:
            continue
        for row in rows:
            n += 1
            rv = pm.ret_variant(row)
            rep.obligation(rv in want_ret.get(v, ()), "C01/R01.3/reply/%s" % v, "%s is answered with %s" % (v, rv), where(pm.fn),
                           sample="%s -> %s" % (v, rv))
            cds = pm.calls(row, "compute_delta")
            pds = pm.calls(row, "process_delta")
            rhs = pm.calls(row, "report_heartbeats_in_digest")
            if v == "Syn" and rv == "SynAck":
                ok = len(cds) == 1 and received(deref_arg(row, cds[0][2][1]), "Syn", "digest")
                rep.obligation(ok, "C01/R01.3/syn/delta-from-received-digest", "the SYN-ACK delta is not computed from the received digest",
                               where(pm.fn), sample="SYN: delta = compute_delta(received digest)")
                inner = T.field(row.ret, "0")
                d = T.field(inner, "delta")
                rep.obligation(d is not None and d[0] == "call" and d[1] == pm.keep["compute_delta"], "C01/R01.3/syn/reply-delta",
                               "the SYN-ACK does not carry the computed delta", where(pm.fn), sample="SYN-ACK.delta = computed delta")
                dg = T.field(inner, "digest")
                rep.obligation(dg is not None and dg[0] == "call" and dg[1] == pm.keep["compute_digest"], "C01/R01.3/syn/reply-digest",
                               "the SYN-ACK does not carry the node's own digest", where(pm.fn), sample="SYN-ACK.digest = own digest")
                rep.obligation(len(rhs) == 1 and received(deref_arg(row, rhs[0][2][1]), "Syn", "digest"), "C01/R01.3/syn/heartbeats",
                               "the SYN arm does not report the heartbeats of the received digest", where(pm.fn),
                               sample="SYN: report_heartbeats_in_digest(received digest)")
            if v == "SynAck":
                ok = len(pds) == 1 and len(cds) == 1 and row.events.index(pds[0]) < row.events.index(cds[0])
                rep.obligation(ok, "C01/R01.3/synack/apply-then-compute", "SYN-ACK: the received delta is not applied before the ACK delta is computed",
                               where(pm.fn), sample="SYN-ACK: process_delta before compute_delta")
                ok = len(cds) == 1 and received(deref_arg(row, cds[0][2][1]), "SynAck", "digest")
                rep.obligation(ok, "C01/R01.3/synack/delta-from-received-digest", "the ACK delta is not computed from the received digest",
                               where(pm.fn), sample="SYN-ACK: delta = compute_delta(received digest)")
                inner = T.field(row.ret, "0") if row.ret[0] == "agg" else None
                d = T.field(inner, "delta") if inner is not None and inner[0] == "agg" else None
                rep.obligation(d is not None and d[0] == "call" and d[1] == pm.keep["compute_delta"], "C01/R01.3/synack/reply-delta",
                               "the ACK does not carry the computed delta", where(pm.fn), sample="ACK.delta = computed delta")
                rep.obligation(len(rhs) == 1 and received(deref_arg(row, rhs[0][2][1]), "SynAck", "digest"), "C01/R01.3/synack/heartbeats",
                               "the SYN-ACK arm does not report the heartbeats of the received digest", where(pm.fn),
                               sample="SYN-ACK: report_heartbeats_in_digest(received digest)")
            if v == "Ack":
                rep.obligation(len(pds) == 1, "C01/R01.3/ack/apply", "the ACK arm does not apply the received delta exactly once", where(pm.fn),
                               sample="ACK: process_delta(received delta)")
    rep.floor("arms", n, 5)
    rep.instance(n)
