"""C02 — no resurrection: inductive-step obligations of the admission/apply code (DESIGN §3 C02)."""
import itertools
from ..core import sym, tables as T, orderenum as oe
from ..core.anchors import where
from ..roles import Roles, NS, ND
from .. import models
from ..models import ModelError, F

LEVEL = "other"
EXPLANATION = (
    "Necessary local conditions of the invariant, decided on extracted tables for every path and ordering: (R02.1) in the "
    "receiver's per-key-value step a mutation is stored iff its version is above the pre-apply max version and it is not a "
    "tombstone at or below the copy's watermark, and it is stored verbatim; (R02.2) a reset replaces the whole copy by a "
    "fresh one (empty map) before any key-value is applied; (R02.4) epoch consistency of admission — a delta is applied "
    "incrementally only if its GC epoch, the copy's max version or the delta's end is at or above the copy's watermark; the "
    "one violating ordering class of the pinned tree is the known finding KF-1 (mid-reset copy fed from a lower GC epoch), "
    "any other class is a violation; (R02.5) the sender resets (from = 0) whenever the peer is behind its watermark; (R18.2) catch-up admission; (R02.6 = C04/R04.4) the store step overwrites an occupied entry iff the update is strictly newer and always fills a vacant one. The "
    "invariant itself over all histories is NOT decided.")
TRUSTED = ["BTreeMap semantics", "the step obligations are necessary, not sufficient, for the global invariant"]
ASSUMPTIONS = ["tombstone GC raising the watermark is decided under C06/R06.3; ascending gap-free delta content under C07/R07.4"]

KVM = "types::KeyValueMutation"


def run(ctx):
    rep = ctx.report
    fx = ctx.fx
    roles = Roles(fx)
    try:
        adm = models.Admission(fx, roles)
        app = models.Apply(fx, roles)
        snd = models.Sender(fx, roles)
    except ModelError as e:
        rep.rule("R02.0", "table extraction")
        rep.violation("C02/" + e.key, e.msg, e.where)
        return
    r02_1(ctx, rep, roles, adm, app)
    r02_2(ctx, rep, roles, app)
    from . import c06
    c06.r06_3(ctx, rep, roles, prefix="C02/R02.3")
    r02_4(ctx, rep, adm)
    r02_5(ctx, rep, snd)
    # catch-up admission (an obsolete snapshot below the watermark would reintroduce collected keys)
    from . import c18
    c18.r18_2(ctx, rep, c18.build_model(fx, roles))
    # the store step itself: set_versioned_value overwrites iff strictly newer (a dropped newer tombstone leaves the copy
    # inexact below its frontier, seed R2-C02-1)
    from . import c04
    c04.r04_4(ctx, rep, roles)
    ctx.report.rules[-1].id = "R02.6(R04.4)"
    # a SetMaxVersion after a refused key-value would move the receiver's frontier past entries it never got (seed R3-C02-2)
    from . import c07
    c07.r07_4(ctx, rep, roles, snd)
    ctx.report.rules[-1].id = "R02.8(R07.4)"
    from . import c14
    c14.r14_5(ctx, rep, adm, P="C02", rule="R02.9")
    # a bare SetMaxVersion for a member whose tombstones were not sent moves the frontier past deletes the copy never got (seed D-db-1)
    from . import c01
    c01.r01_1(ctx, rep, roles, snd)
    ctx.report.rules[-1].id = "R02.10(R01.1)"
    # every member delta of a message is applied, none skipped once another one reset (seed D-db-2)
    from . import c20
    c20.r20_2(ctx, rep, roles, app)
    ctx.report.rules[-1].id = "R02.11(R20.2)"
    from .. import identity
    identity.check(ctx, rep, "C02", "R02.7", ["vv-clone"])


def loop_body(row, fid):
    body, idx = row.events, None
    for i, e in enumerate(row.events):
        if e[0] == "loop" and e[1] == fid:
            body, idx = row.events[i + 1:], i
    return body, idx


def r02_1(ctx, rep, roles, adm, app):
    r = rep.rule("R02.1", "receiver per-key-value step: stored <=> version > pre-apply max and not (tombstone and version <= "
                          "watermark); stored verbatim (key, value, version, status kind)")
    svv = roles.set_versioned_value["id"]
    rep.anchor("recv_apply", where(app.fn))
    rows = []
    for row in app.backedge_rows:
        body, idx = loop_body(row, app.fn["id"])
        if idx is None:
            continue
        rows.append((row, body))
    rep.floor("loop-body-rows", len(rows), 6)
    # identify the iterated mutation
    item = None
    for row, body in rows:
        for c in row.cond:
            for s in T.subterms(c[1]):
                if s[0] == "proj" and s[2] == F(KVM, "version"):
                    item = s[1]
    if item is None:
        rep.violation("C02/R02.1/no-version-test", "the per-key-value step no longer compares the mutation's version", where(app.fn))
        return

    def canon(t):
        c = models.canon_recv(t)
        if c is not None:
            return c
        if t == ("proj", item, F(KVM, "version")):
            return T.R("v")
        if t == ("proj", item, F(KVM, "status")):
            return T.R("kind")
        return None
    conds = [[T.rewrite_cond(c, canon) for c in row.cond] for row, _ in rows]
    KINDS = ("Set", "Delete", "DeleteAfterTtl")
    n = 0
    bad = None
    K = 4
    for rg, rm, frm, dg, dm in itertools.product(range(K + 1), repeat=5):
        s = adm.status(rg, rm, frm, dg, dm)
        if s == "Reject":
            continue
        g0, m0 = (dg, 0) if s == "ApplyAfterReset" else (rg, rm)
        base = adm.asg(rg, rm, frm, dg, dm)
        for v in range(0, K + 2):
            for kind in KINDS:
                n += 1
                asg = dict(base)
                asg[T.R("v")] = v
                asg[("discr", T.R("kind"))] = kind
                want = v > m0 and not (kind != "Set" and v <= g0)
                matched = 0
                for (row, body), cs in zip(rows, conds):
                    ok = True
                    for c in cs:
                        try:
                            if not oe.holds(c, asg):
                                ok = False
                                break
                        except oe.NeedAtom:
                            continue
                    if not ok:
                        continue
                    matched += 1
                    stored = any(e[0] == "call" and e[1] == svv for e in body)
                    if stored != want and bad is None:
                        bad = dict(copy=(rg, rm), delta=(frm, dg, dm), status=s, version=v, kind=kind, stored=stored, expected=want)
                if matched == 0 and bad is None:
                    bad = dict(copy=(rg, rm), delta=(frm, dg, dm), status=s, version=v, kind=kind, stored="no path", expected=want)
    if bad:
        cls = "%s-%s" % ("stored" if bad["stored"] is True else "dropped", "tombstone" if bad["kind"] != "Set" else "set")
        rep.obligation(False, "C02/R02.1/skip-rule/" + cls,
                       "receiver step differs from the rule: %s" % bad, where(app.fn), witness=bad, evaluations=n)
    else:
        rep.obligation(True, "", "", evaluations=n, sample="%d (copy, delta, version, kind) cases: stored iff v > max0 and not "
                                                          "(tombstone and v <= gc0)" % n)
    # verbatim copy into set_versioned_value
    n_calls = 0
    for row, body in rows:
        for e in body:
            if e[0] == "call" and e[1] == svv:
                n_calls += 1
                key, vv = e[2][1], e[2][2]
                ok = key == ("proj", item, F(KVM, "key"))
                rep.obligation(ok, "C02/R02.1/verbatim/key", "stored under key %s, not the mutation's key" % sym.fmt(key)[:80], where(app.fn),
                               sample="key = mutation.key")
                ok = vv[0] == "agg" and T.field(vv, "value") == ("proj", item, F(KVM, "value")) and \
                    T.field(vv, "version") == ("proj", item, F(KVM, "version"))
                rep.obligation(ok, "C02/R02.1/verbatim/value-version", "stored value/version are not the mutation's: %s" % sym.fmt(vv)[:160],
                               where(app.fn), sample="value, version = mutation.value, mutation.version")
                stt = T.field(vv, "status") if vv[0] == "agg" else None
                kind_ok = False
                if stt is not None and stt[0] == "agg":
                    want = {"Set": "Set", "Delete": "Deleted", "DeleteAfterTtl": "DeleteAfterTtl"}
                    knd = None
                    for c in row.cond:
                        if c[0] == "variant" and c[1] == ("proj", item, F(KVM, "status")) and c[3]:
                            knd = c[2]
                    kind_ok = knd is not None and want.get(knd) == stt[2]
                rep.obligation(kind_ok, "C02/R02.1/verbatim/status", "stored status %s does not correspond to the mutation's kind" % (
                    sym.fmt(stt)[:60] if stt else None), where(app.fn), sample="status kind preserved")
    rep.floor("set_versioned_value-calls", n_calls, 6)
    rep.instance(len(rows))


def r02_2(ctx, rep, roles, app):
    r = rep.rule("R02.2", "a reset replaces the copy by a fresh one (empty key-value map, max 0, watermark := delta gc) before the "
                          "key-value loop")
    reset = roles.reset_node["id"]
    n = 0
    for row in app.rows:
        called = roles.reset_events(row, models.RECV)
        if not called:
            continue
        n += 1
        body, idx = loop_body(row, app.fn["id"])
        ci = row.events.index(called[0])
        rep.obligation(idx is None or ci < idx, "C02/R02.2/reset-after-loop", "reset_node is called after key-values were applied", where(app.fn))
        whole = [e for e in row.events if e[0] == "write" and e[1] == models.RECV and e[2] == () and e[3][0] == "agg"]
        ok = False
        why = "no whole-copy overwrite"
        if whole:
            kvs = T.field(whole[0][3], "key_values")
            ok = kvs is not None and kvs[0] == "call" and not kvs[2] and ("default" in kvs[1].lower() or kvs[1].endswith("::new"))
            why = "key_values := %s" % (sym.fmt(kvs)[:80] if kvs else None)
            if idx is not None:
                ok = ok and row.events.index(whole[0]) < idx
        rep.obligation(ok, "C02/R02.2/wipe", "the reset does not start from an empty map: %s" % why, where(roles.reset_node),
                       sample="reset: *self = NodeState::new(..) with an empty map")
        g = app.final(row, "last_gc_version") if row.exit == "return" else None
        if g is not None:
            rep.obligation(g == T.R("dg"), "C02/R02.2/watermark", "after a reset the watermark is %s, expected the delta's" % sym.fmt(g)[:60],
                           where(roles.reset_node), sample="reset: last_gc_version := delta.last_gc_version")
    rep.floor("reset-rows", n, 1)
    rep.instance(n)


def r02_4(ctx, rep, adm):
    r = rep.rule("R02.4", "epoch consistency of admission: Apply => dg >= rg or rm >= rg or dm >= rg")
    K = 5
    classes = {}
    n = 0
    for rg, rm, frm, dg, dm in itertools.product(range(K + 1), repeat=5):
        n += 1
        if adm.status(rg, rm, frm, dg, dm) != "Apply":
            continue
        if dg >= rg or rm >= rg or dm >= rg:
            continue
        cls = "from%srm&rm%sdm" % ("<=" if frm <= rm else ">", "<" if rm < dm else ">=")
        classes.setdefault(cls, (rg, rm, frm, dg, dm))
    for cls, w in sorted(classes.items()):
        rep.obligation(False, "C02/R02.4/recv_admission/class:" + cls,
                       "a copy with watermark above its max version (mid-reset) admits an incremental delta of a lower GC epoch "
                       "that ends below the watermark: (rg,rm,from,dg,dm)=%s" % (w,), where(adm.fn), witness=list(w), evaluations=n)
    if not classes:
        rep.obligation(True, "", "", evaluations=n, sample="no ordering admits a lower-epoch delta below the watermark")
    rep.count("orderings", n)
    rep.count("violating-classes", len(classes))
    rep.instance(n)


def r02_5(ctx, rep, snd):
    r = rep.rule("R02.5", "the sender starts from version 0 (reset) whenever the peer's max version and watermark are both below "
                          "its own watermark — an incremental delta would skip collected tombstones")
    K = 6
    n = 0
    bad = None
    try:
        for sg, sm, rg, rm in itertools.product(range(K + 1), repeat=4):
            for present in (True, False):
                n += 1
                off, frm, _ = snd.decide(sg, sm, rg, rm, present)
                erg, erm = (rg, rm) if present else (0, 0)
                if off and erg < sg and erm < sg and frm != 0 and bad is None:
                    bad = (sg, sm, erg, erm, frm)
    except ModelError as e:
        rep.violation("C02/R02.5/" + e.key, e.msg, e.where)
        return
    rep.obligation(bad is None, "C02/R02.5/incremental-past-gc",
                   "sender (gc,max)=(%s,%s) answers a peer at (gc,max)=(%s,%s) incrementally from %s although tombstones up to its "
                   "watermark are gone" % (bad or (0,) * 5), where(snd.fn), evaluations=n,
                   sample="peer behind the watermark => from = 0")
    rep.instance(n)
