"""C18 — external catch-up never regresses, corrupts or panics (DESIGN §3 C18)."""
import itertools
from ..core import sym, tables as T, orderenum as oe, callgraph, inventory as inv
from ..core.anchors import where
from ..roles import Roles, NS
from .. import kv
from ..kv import VV, F

LEVEL = "other"
EXPLANATION = (
    "Decision table of Chitchat::reset_node_state_if_update extracted from MIR (set_versioned_value inlined, so that the "
    "places written by the replacement loop are known exactly). Decided for every ordering of (current gc, current max, "
    "supplied gc, supplied max, loop value of max): (R18.1) the closing assertion cannot fail; (R18.2) every returning path "
    "leaves (gc, max) >= before; (R18.7) paths that change the copy require supplied max > current max and >= current "
    "watermark; (R18.3) the creating accessor is used only when the GC memory has no entry for the member; (R18.4) call-graph: "
    "no path from catch-up to the heartbeat/liveness writers, but the member is registered with the failure detector; "
    "(R18.5) supplied entries go through set_versioned_value and exactly the remaining previous keys are removed; (R18.6) "
    "supplied versions are not validated — known finding KF-2.")
TRUSTED = ["HashSet/BTreeMap semantics", "in-loop max fold of set_versioned_value (C04/R04.2)"]
ASSUMPTIONS = ["interleavings with gossip are not explored: each gossip step is separately monotone (C04)"]


def build_model(fx, roles):
    fn = roles.catchup
    eng = sym.Engine(fx, no_inline=kv.listener_fns(fx) | {roles.fd_get_or_create_window["id"]})
    rows = eng.table(fn["id"], arg_terms={1: ("ptr", ("S", "self"), ()), 2: ("ptr", ("S", "id"), ()), 3: ("obj", ("S", "kvs")),
                                          4: ("obj", ("S", "M")), 5: ("obj", ("S", "G"))})
    return Model(fx, roles, fn, eng, rows)


def run(ctx):
    rep = ctx.report
    fx = ctx.fx
    roles = Roles(fx)
    fn = roles.catchup
    eng = sym.Engine(fx, no_inline=kv.listener_fns(fx) | {roles.fd_get_or_create_window["id"]})
    rows = eng.table(fn["id"], arg_terms={1: ("ptr", ("S", "self"), ()), 2: ("ptr", ("S", "id"), ()), 3: ("obj", ("S", "kvs")),
                                          4: ("obj", ("S", "M")), 5: ("obj", ("S", "G"))})
    model = Model(fx, roles, fn, eng, rows)
    r18_1(ctx, rep, model)
    r18_2(ctx, rep, model)
    r18_3(ctx, rep, roles, model)
    r18_4(ctx, rep, roles, fn)
    r18_5(ctx, rep, roles, model)
    r18_6(ctx, rep, roles, model)
    # R18.3 relies on the removed-member memory being filled for every removed member
    from . import c12
    c12.r12_5(ctx, rep, roles)
    ctx.report.rules[-1].id = "R18.3b(R12.5)"
    from .. import identity
    identity.check(ctx, rep, "C18", "R18.8", ["hb-default", "id-eq", "id-hash", "vv-clone"])


class Model:
    def __init__(self, fx, roles, fn, eng, rows):
        self.fx, self.roles, self.fn, self.eng, self.rows = fx, roles, fn, eng, rows
        self.ret = [r for r in rows if r.exit == "return"]
        self.panic = [r for r in rows if r.exit == "panic"]
        self.back = [r for r in rows if r.exit == "backedge"]

    def canon(self, t):
        if t == ("obj", ("S", "M")):
            return T.R("M")
        if t == ("obj", ("S", "G")):
            return T.R("G")
        if t[0] == "proj" and t[2] == F(NS, "max_version") and t[1][0] == "obj":
            return T.R("m0")
        if t[0] == "proj" and t[2] == F(NS, "last_gc_version") and t[1][0] == "obj":
            return T.R("g0")
        if t[0] == "loopvar":
            name = t[1][2]
            if name.endswith(".max_version"):
                return T.R("lm")
            if name.endswith(".last_gc_version"):
                return T.R("lg")
        if t[0] == "proj" and t[2] == F(NS, "max_version") and t[1][0] == "loopvar":
            return T.R("lm")
        if t[0] == "proj" and t[2] == F(NS, "last_gc_version") and t[1][0] == "loopvar":
            return T.R("lg")
        return None

    def grid(self, K=3):
        for g0, m0, G, M in itertools.product(range(K + 1), repeat=4):
            for lm in range(m0, K + 2):     # loop value of max_version: max-fold from m0
                yield {T.R("g0"): g0, T.R("m0"): m0, T.R("G"): G, T.R("M"): M, T.R("lm"): lm, T.R("lg"): g0}

    def holds_maybe(self, row, asg):
        """False if some evaluable condition fails; conditions on other atoms are skipped"""
        for c in row.cond:
            cc = T.rewrite_cond(c, self.canon)
            try:
                if not oe.holds(cc, asg):
                    return False
            except oe.NeedAtom:
                continue
        return True

    def node_root(self, row):
        for e in row.calls():
            if e[1] in [s["id"] for s in self.setters()] and e[2] and e[2][0][0] == "ptr":
                return e[2][0][1]
        return None

    def setters(self):
        from .c04 import setter
        return setter(self.fx, "max_version") + setter(self.fx, "last_gc_version")


def r18_1(ctx, rep, m):
    r = rep.rule("R18.1", "the closing assertion (after > before) of catch-up cannot fail; no other aborting path")
    rep.anchor("catchup", where(m.fn))
    n = 0
    for row in m.panic:
        site = row.site
        is_assert = site and site[0] in ("diverging-call",) and "panic" in str(site[1])
        wit = None
        for asg in m.grid():
            n += 1
            if m.holds_maybe(row, asg):
                wit = {k[1][1]: v for k, v in asg.items()}
                break
        rep.obligation(wit is None, "C18/R18.1/closing-assert-not-implied",
                       "catch-up can abort (%s): e.g. %s" % (site, wit), where(m.fn, site[2][1] if site and len(site) > 2 else None),
                       witness=wit, evaluations=n, sample="assert!(after > before) unreachable on all orderings of (g0,m0,G,M,loop max)")
    rep.count("aborting-paths", len(m.panic))
    rep.instance(len(m.rows))


def r18_2(ctx, rep, m):
    r = rep.rule("R18.2", "every returning path leaves (gc, max) >= before; changing paths need supplied max > current max and "
                          ">= current watermark (R18.7)")
    n = 0
    n_change = 0
    for row in m.ret:
        root = m.node_root(row)
        changed = root is not None
        if not changed:
            # no setter call: the copy must be untouched
            ws = [e for e in kv.effective_writes(row) if e[2] and e[2][-1] in (F(NS, "max_version"), F(NS, "last_gc_version"), F(NS, "key_values"))]
            rep.obligation(not ws, "C18/R18.2/write-on-skip-path", "a path that returns early still writes the copy", where(m.fn),
                           sample="early return: copy untouched")
            continue
        n_change += 1
        g = T.rewrite(m.eng.read_rp(kv._St(row.store), root, (F(NS, "last_gc_version"),)), m.canon)
        mx = T.rewrite(m.eng.read_rp(kv._St(row.store), root, (F(NS, "max_version"),)), m.canon)
        bad = None
        guard_bad = None
        for asg in m.grid():
            if not m.holds_maybe(row, asg):
                continue
            n += 1
            try:
                after = (oe.ev(g, asg), oe.ev(mx, asg))
            except oe.NeedAtom as e:
                bad = bad or "frontier after catch-up depends on %s" % sym.fmt(e.atom)[:80]
                break
            before = (asg[T.R("g0")], asg[T.R("m0")])
            if after < before:
                bad = bad or "before %s after %s (G=%d M=%d)" % (before, after, asg[T.R("G")], asg[T.R("M")])
            if not (asg[T.R("M")] > asg[T.R("m0")] and asg[T.R("M")] >= asg[T.R("g0")]):
                guard_bad = guard_bad or "copy (gc,max)=%s replaced by a snapshot with max %d" % (before, asg[T.R("M")])
        rep.obligation(bad is None, "C18/R18.2/frontier-regresses", "catch-up lowers the frontier: %s" % bad, where(m.fn), evaluations=n,
                       sample="(gc,max)' = (%s, %s) >= before" % (sym.fmt(g)[:40], sym.fmt(mx)[:40]))
        rep.obligation(guard_bad is None, "C18/R18.7/obsolete-snapshot-accepted",
                       "catch-up replaces the copy although the snapshot is not newer than it / is below its watermark: %s" % guard_bad,
                       where(m.fn), sample="replacement only if M > max and M >= gc")
    rep.floor("changing-rows", n_change, 1)
    rep.instance(len(m.ret))


def r18_3(ctx, rep, roles, m):
    r = rep.rule("R18.3", "a collected member is never recreated: the creating accessor is used only when the removed-member "
                          "memory has no entry")
    creator = roles.node_state_mut_or_init["id"]
    lhd = roles.last_heartbeat_if_deleted["id"]
    n = 0
    for row in m.rows:
        cs = [e for e in row.calls() if e[1] == creator]
        if not cs:
            continue
        n += 1
        mem = [e for e in row.calls() if e[1] == lhd]
        ok = bool(mem) and row.events.index(mem[0]) < row.events.index(cs[0])
        # the memory lookup returned None on this path
        none = False
        for c in row.cond:
            if c[0] == "variant" and c[3] and c[2] == "None" and c[1][0] == "call" and "peek" in c[1][1]:
                none = True
        ok = ok and none and mem[0][2][1] == cs[0][2][1]
        rep.obligation(ok, "C18/R18.3/recreates-collected", "catch-up creates the member's copy on a path where the removed-member "
                       "memory was not consulted or has an entry", where(m.fn), sample="create only if last_heartbeat_if_deleted(id) is None")
    rep.floor("creating-rows", n, 1)
    rep.instance(n)


def r18_4(ctx, rep, roles, fn):
    r = rep.rule("R18.4", "catch-up never makes a member live: no call path to heartbeat / liveness writers; the member is "
                          "registered with the failure detector")
    fx = ctx.fx
    cg = callgraph.CallGraph(fx)
    reach = cg.reachable([fn["id"]])
    forbidden = {"try_set_heartbeat": roles.try_set_heartbeat["id"], "fd_report_heartbeat": roles.fd_report_heartbeat["id"],
                 "sw_report_heartbeat": roles.sw_report_heartbeat["id"], "fd_update_node_liveness": roles.fd_update_node_liveness["id"]}
    for nm, fid in forbidden.items():
        p = cg.path(fn["id"], fid) if fid in reach else None
        rep.obligation(p is None, "C18/R18.4/reaches/%s" % nm, "catch-up reaches %s via %s" % (fid, p), where(fn),
                       sample="no path to %s" % nm)
    for field in ("live_nodes", "dead_nodes"):
        ws = [s for s in inv.field_writes(fx, "failure_detector::FailureDetector", field) if s.fn in reach and s.kind in ("assign", "mutborrow", "calldest")]
        rep.obligation(not ws, "C18/R18.4/writes/%s" % field, "catch-up reaches a writer of FailureDetector.%s: %s" % (field, ws[:2]), where(fn),
                       sample="no reachable writer of %s" % field)
    hb = [s for s in inv.field_writes(fx, NS, "heartbeat") if s.fn in reach and fx.root_fn(s.fn) not in (roles.reset_node["id"],)
          and not s.fn.endswith("NodeState::new")]
    rep.obligation(not hb, "C18/R18.4/writes/heartbeat", "catch-up reaches a writer of NodeState.heartbeat: %s" % hb[:2], where(fn),
                   sample="no reachable heartbeat writer (constructor excepted)")
    rep.obligation(roles.fd_get_or_create_window["id"] in reach, "C18/R18.4/not-registered",
                   "catch-up no longer registers the member with the failure detector (it would never be collected)", where(fn),
                   sample="get_or_create_sampling_window reached")
    rep.count("reachable-fns", len(reach))
    rep.instance(len(reach))


def r18_5(ctx, rep, roles, m):
    r = rep.rule("R18.5", "replacement discipline: supplied entries go through set_versioned_value; exactly the previous keys not "
                          "supplied are removed")
    svv = roles.set_versioned_value["id"]
    n_ins = n_rm = 0
    for row in m.back:
        ins = [e for e in row.calls() if e[1] == svv]
        for e in ins:
            n_ins += 1
            key, val = e[2][1], e[2][2]
            ok = key[0] == "proj" and val[0] == "proj" and key[1] == val[1] and key[2][2] == "0" and val[2][2] == "1"
            rep.obligation(ok, "C18/R18.5/pairing", "set_versioned_value gets key %s and value %s (not one supplied pair)" % (
                sym.fmt(key)[:50], sym.fmt(val)[:50]), where(m.fn), sample="insert(pair.0, pair.1)")
            # every supplied pair is visited: the pair comes straight from the supplied iterator (no take_while / filter / skip)
            kr = T.resolve_locals(m.eng, row.store, key)
            names = {sym.strip_all_generics(x[1][6:] if x[1].startswith("havoc:") else x[1]).split("::")[-1] for x in T.subterms(kr) if x[0] == "call"}
            from_supplied = any(x == ("obj", ("S", "kvs")) for x in T.subterms(kr))
            rep.obligation(from_supplied and names <= {"next", "into_iter"}, "C18/R18.5/supplied-iteration",
                           "the inserted pair reaches the insert through %s (expected: the supplied iterator itself, every element)" % sorted(names - {"next", "into_iter"}),
                           where(m.fn), sample="pairs come from the supplied iterator without adaptor")
            # the key is removed from the previous-key set before the insert
            rm = [x for x in row.calls() if sym.strip_all_generics(x[1]).split("::")[-1] == "remove" and ("HashSet" in x[1] or "BTreeSet" in x[1])
                  and row.events.index(x) < row.events.index(e)]
            rep.obligation(bool(rm), "C18/R18.5/previous-keys", "a supplied key is not taken out of the previous-key set", where(m.fn),
                           sample="previous_keys.remove(key) before insert")
        for e in row.calls():
            if sym.strip_all_generics(e[1]).endswith("BTreeMap::remove") and T.mentions_field(e[2][0], NS, "key_values"):
                n_rm += 1
    # ... and the loop over the supplied pairs is left only when they are exhausted: no returning path still had a pair in hand
    # (`break`, or a take_while in front of the loop / for_each)
    for row in m.ret:
        left_early = [c for c in row.cond if c[0] == "variant" and c[3] and c[2] == "Some" and c[1][0] == "call" and c[1][1].endswith("::next") and any(
            x == ("obj", ("S", "kvs")) for x in T.subterms(T.resolve_locals(m.eng, row.store, c[1])))]
        rep.obligation(not left_early, "C18/R18.5/supplied-iteration", "a returning path leaves the loop over the supplied pairs while a pair is still available",
                       where(m.fn, row.site[1]), sample="the supplied-pairs loop ends only when the iterator is exhausted")
    direct = [s for s in inv.field_writes(m.fx, NS, "key_values") if m.fx.root_fn(s.fn) == m.fn["id"]]
    rep.obligation(not direct, "C18/R18.5/direct-map-write", "catch-up manipulates key_values directly", where(m.fn),
                   sample="no direct key_values access in catch-up")
    rep.floor("insert-sites", n_ins, 1)
    rep.floor("removal-sites", n_rm, 1)
    rep.instance(n_ins + n_rm)


def r18_6(ctx, rep, roles, m):
    r = rep.rule("R18.6", "supplied versions must be validated (distinct, >= 1) before they are stored — the invariant that the "
                          "sender's apply_op(..).is_ok() assertion relies on")
    svv = roles.set_versioned_value["id"]
    for row in m.back:
        for e in row.calls():
            if e[1] != svv:
                continue
            val = e[2][2]
            ver = sym.proj(val, F(VV, "version"))
            # any condition before the call that mentions the supplied version (or the pair)?
            idx = row.events.index(e)
            checked = False
            for c in row.cond:
                if ver in T.subterms(c[1]) or (c[0] == "truth" and val in T.subterms(c[1])):
                    checked = True
            validators = [x for x in row.calls() if row.events.index(x) < idx and any(val in T.subterms(a) or ver in T.subterms(a) for a in x[2])
                          and x[1] != svv and "remove" not in x[1] and "clone" not in x[1].lower()]
            rep.obligation(checked or bool(validators), "C18/R18.6/catchup/unchecked-inserter",
                           "catch-up stores supplied versions without validating them: two supplied keys with the same version "
                           "(or version 0) are accepted and the next delta computed for that member aborts in "
                           "DeltaSerializer::try_add_op", where(m.fn), sample="supplied version validated before insert")
            return
