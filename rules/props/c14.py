"""C14 — sender and receiver agree on reset versus incremental update (DESIGN §3 C14)."""
import itertools
from ..core import sym, tables as T, orderenum as oe
from ..core.anchors import where
from ..roles import Roles, NS
from .. import models
from ..models import ModelError, F

LEVEL = "proof"
EXPLANATION = (
    "Decision tables of the sender (per-member part of ClusterState::compute_partial_delta_respecting_mtu) and of the "
    "receiver (NodeState::check_delta_status, NodeState::apply_delta) are extracted from mir_built as terms over the "
    "atoms (sender gc/max, peer-digest gc/max, delta from/gc/max); the agreement obligations of the property are then "
    "evaluated for every ordering of these atoms on the grid 0..K (K>= #atoms+1, a complete abstraction for terms that "
    "only compare and copy) and every truncation point of the delta. (R14.4 = C01/R01.1) the empty-tail SetMaxVersion guard is evaluated per member. Nothing of chitchat is executed.")
TRUSTED = ["small-model argument for comparison-only integer terms (orderings of n atoms are all realised in 0..n)",
           "BTreeMap/Option/iterator library semantics as summarised"]
ASSUMPTIONS = ["space permitting: MTU truncation is C07's subject; here every truncation point (header only, any prefix of "
               "the ascending versions, or the SetMaxVersion tail) is enumerated",
               "a receiver that has no copy of the member ignores the delta (ClusterState::apply_delta); its digest then "
               "carries no entry, which the sender reads as (0,0)"]


def grid_k(ctx):
    return 7 if ctx.tier == "quick" else 9


def run(ctx):
    rep = ctx.report
    fx = ctx.fx
    roles = Roles(fx)
    K = grid_k(ctx)
    try:
        adm = models.Admission(fx, roles)
        app = models.Apply(fx, roles)
        snd = models.Sender(fx, roles)
    except ModelError as e:
        rep.rule("R14.0", "table extraction")
        rep.violation("C14/" + e.key, e.msg, e.where)
        return
    r14_1(ctx, rep, snd, K)
    r14_1b(ctx, rep, snd, roles)
    r14_2(ctx, rep, adm, app, K)
    r14_3(ctx, rep, snd, adm, app, K)
    # the "ahead only by max version" case is delivered by the empty-tail SetMaxVersion: its guard is per member (seed R2-C14-2)
    from . import c01
    c01.r01_1(ctx, rep, roles, snd)
    ctx.report.rules[-1].id = "R14.4(R01.1)"
    r14_5(ctx, rep, adm)
    # a SetMaxVersion after a refused key-value makes the receiver adopt a frontier the delta does not carry (seed R3-C14-1)
    from . import c07
    c07.r07_4(ctx, rep, roles, snd)
    ctx.report.rules[-1].id = "R14.6(R07.4)"
    # "applies exactly the keys above its max version": for every member delta of the message, not only up to the first reset
    from . import c20
    c20.r20_2(ctx, rep, roles, app)
    ctx.report.rules[-1].id = "R14.7(R20.2)"


# ------------------------------------------------------------------------- R14.1
def r14_1(ctx, rep, snd, K, P="C14"):
    r = rep.rule("R14.1", "sender per-member decision equals the specified one for every ordering: "
                          "offered <=> sm > rm; from = 0 if (rg < sg and rm < sg) else rm; scheduled members skipped")
    rep.anchor("compute_delta", where(snd.fn))
    r.samples.extend(snd.describe()[:6])
    rep.floor("member-rows", len(snd.member_rows), 6)
    n = 0
    bad = None
    try:
        for sg in range(K + 1):
            for sm in range(K + 1):
                for rg in range(K + 1):
                    for rm in range(K + 1):
                        for present in (True, False):
                            n += 1
                            offered, frm, _ = snd.decide(sg, sm, rg, rm, present)
                            erg, erm = (rg, rm) if present else (0, 0)
                            e_off = sm > erm
                            e_from = (0 if (erg < sg and erm < sg) else erm) if e_off else None
                            if (offered, frm) != (e_off, e_from) and bad is None:
                                bad = (sg, sm, rg, rm, present, offered, frm, e_off, e_from)
        # scheduled-for-deletion members are never offered
        for sg, sm, rg, rm in ((0, 1, 0, 0), (3, 5, 1, 2), (K, K, 0, 0)):
            for present in (True, False):
                n += 1
                offered, frm, _ = snd.decide(sg, sm, rg, rm, present, scheduled=True)
                if offered and bad is None:
                    bad = (sg, sm, rg, rm, present, offered, frm, False, None, "scheduled")
    except ModelError as e:
        rep.violation(P + "/R14.1/" + e.key, e.msg, e.where)
        return
    if bad:
        cls = classify_sender(bad)
        rep.obligation(False, P + "/R14.1/sender-decision/" + cls,
                       "sender decision differs from the specified one: sender (gc,max)=(%d,%d), peer digest %s -> "
                       "offered=%s from=%s, expected offered=%s from=%s" % (
                           bad[0], bad[1], (bad[2], bad[3]) if bad[4] else "absent", bad[5], bad[6], bad[7], bad[8]),
                       where(snd.fn), witness=list(bad), evaluations=n)
    else:
        rep.obligation(True, "", "", evaluations=n, sample="all %d orderings of (sg,sm,rg,rm) in 0..%d x entry present/absent: "
                                                          "offered/from as specified" % (n, K))
    rep.instance(len(snd.member_rows))


def classify_sender(bad):
    sg, sm, rg, rm, present, offered, frm, e_off, e_from = bad[:9]
    if len(bad) > 9:
        return "scheduled-member-offered"
    if offered != e_off:
        return "offered-when-not-ahead" if offered else "not-offered-when-ahead"
    return "from=%s-expected-%s" % ("0" if frm == 0 else "rm" if frm == rm else "other",
                                    "0" if e_from == 0 and e_from != rm else "rm")


# ------------------------------------------------------------------------ R14.1b
def r14_1b(ctx, rep, snd, roles):
    r = rep.rule("R14.1b", "what is put in the delta for an offered member: header (id, gc := copy's gc, from := decided "
                           "start), key-values with version > from, empty tail carries the copy's max version")
    STALE = models.STALE
    fx = ctx.fx
    # (a) the StaleNode pushed by the decision pairs the examined copy with its own id and the decided start
    n_agg = 0
    for row in snd.member_rows:
        for agg in snd.stale_node(row):
            n_agg += 1
            ns = T.field(agg, "node_state")
            cid = T.field(agg, "chitchat_id")
            ok = ns is not None and ns[0] == "ptr" and ("obj", ns[1]) == snd.state_base
            rep.obligation(ok, "C14/R14.1b/stale-node/state", "the offered entry does not reference the examined copy",
                           where(snd.fn), sample="StaleNode.node_state = examined copy")
            ok = cid is not None and cid[0] == "ptr" and cid[1][0] == "D" and cid[1][1] == sym.proj(snd.item, F("<tuple>", "0"))
            rep.obligation(ok, "C14/R14.1b/stale-node/id", "the offered entry does not carry the examined member's id",
                           where(snd.fn), sample="StaleNode.chitchat_id = examined member id")
    rep.floor("stale-node-constructions", n_agg, 3)
    # (b) emission loop: arguments of try_add_node / stale_key_values / try_set_max_version
    add_node, set_max = roles.ser_add_node["id"], roles.ser_set_max["id"]
    ns_kvs = roles.ns_stale_kvs["id"]
    items = set()
    n_node = n_kvs = n_max = 0
    for row in snd.emit_rows:
        for e in row.events:
            if e[0] != "call":
                continue
            if e[1] == add_node:
                n_node += 1
                _, idt, dg, frm = e[2][:4]
                item = frm[1] if frm[0] == "proj" and frm[2] == F(STALE, "from_version_excluded") else None
                rep.obligation(item is not None, "C14/R14.1b/header/from",
                               "try_add_node's start version is not the offered entry's from_version_excluded: %s" % sym.fmt(frm)[:120],
                               where(snd.fn, e[3][1]), sample="header.from = entry.from_version_excluded")
                if item is None:
                    continue
                items.add(item)
                exp_dg = sym.proj(("obj", ("D", sym.proj(item, F(STALE, "node_state")))), F(NS, "last_gc_version"))
                rep.obligation(dg == exp_dg, "C14/R14.1b/header/gc",
                               "try_add_node's gc version is %s, expected the offered copy's last_gc_version" % sym.fmt(dg)[:120],
                               where(snd.fn, e[3][1]), sample="header.gc = entry.node_state.last_gc_version")
                exp_id_root = ("D", sym.proj(item, F(STALE, "chitchat_id")))
                ids = [s for s in T.subterms(idt) if s[0] == "obj" and s[1] == exp_id_root]
                rep.obligation(bool(ids), "C14/R14.1b/header/id",
                               "try_add_node's id is not the offered entry's chitchat_id: %s" % sym.fmt(idt)[:120],
                               where(snd.fn, e[3][1]), sample="header.id = clone(entry.chitchat_id)")
            elif e[1] == ns_kvs:
                n_kvs += 1
                st, floor = e[2][:2]
                item = floor[1] if floor[0] == "proj" and floor[2] == F(STALE, "from_version_excluded") else None
                ok = item is not None and st == ("ptr", ("D", sym.proj(item, F(STALE, "node_state"))), ())
                rep.obligation(ok, "C14/R14.1b/kvs/floor",
                               "stale key-values are not taken from the offered copy above the offered start version "
                               "(state=%s floor=%s)" % (sym.fmt(st)[:80], sym.fmt(floor)[:80]), where(snd.fn, e[3][1]),
                               sample="kvs = entry.node_state.stale_key_values(entry.from_version_excluded)")
            elif e[1] == set_max:
                n_max += 1
                mv = e[2][1]
                ok = (mv[0] == "proj" and mv[2] == F(NS, "max_version") and mv[1][0] == "obj" and mv[1][1][0] == "D"
                      and mv[1][1][1][0] == "proj" and mv[1][1][1][2] == F(STALE, "node_state"))
                rep.obligation(ok, "C14/R14.1b/set-max-version",
                               "try_set_max_version carries %s, expected the offered copy's max_version" % sym.fmt(mv)[:120],
                               where(snd.fn, e[3][1]), sample="SetMaxVersion = entry.node_state.max_version")
    rep.floor("try_add_node-sites", n_node, 1)
    rep.floor("stale_key_values-sites", n_kvs, 1)
    rep.floor("try_set_max_version-sites", n_max, 1)
    # (c) the filter of stale_key_values is `version > floor`
    check_stale_filter(ctx, rep, roles)


def check_stale_filter(ctx, rep, roles):
    fx = ctx.fx
    f = roles.ns_stale_kvs
    # the closure handed to Iterator::filter
    eng = sym.Engine(fx)
    rows = eng.table(f["id"], arg_terms={1: ("ptr", ("S", "state"), ()), 2: ("obj", ("S", "floor"))})
    filt = None
    for r in rows:
        for e in r.events:
            if e[0] == "call" and sym.strip_all_generics(e[1]).endswith("Iterator::filter"):
                for a in e[2]:
                    if a[0] == "closure":
                        filt = a
    if filt is None:
        rep.obligation(False, "C14/R14.1b/filter/missing", "stale_key_values no longer filters by version", where(f))
        return
    # evaluate the closure body: (env, &(key, vv)) -> bool
    st = sym.St()
    outs = list(sym.call_closure(eng, st, filt, [("ptr", ("S", "kv"), ())], 0, (f["id"], 0)))

    def canon(t):
        if t[0] == "proj" and t[2] == F("types::VersionedValue", "version"):
            return T.R("v")
        if t == ("obj", ("S", "floor")):
            return T.R("floor")
        return None
    n = 0
    bad = None
    for v in range(0, 4):
        for fl in range(0, 4):
            n += 1
            asg = {T.R("v"): v, T.R("floor"): fl}
            res = []
            for s2, ret in outs:
                if all(oe.holds(T.rewrite_cond(c, canon), asg) for c in s2.cond):
                    res.append(oe.ev(T.rewrite(ret, canon), asg))
            if res != [v > fl] and bad is None:
                bad = (v, fl, res)
    rep.obligation(bad is None, "C14/R14.1b/filter/predicate",
                   "stale_key_values keeps version=%s for floor=%s -> %s, expected version > floor" % (bad or (0, 0, 0)),
                   where(f), evaluations=n, sample="filter closure == (version > floor) on 16 orderings")


# ------------------------------------------------------------------------- R14.2
def r14_2(ctx, rep, adm, app, K):
    r = rep.rule("R14.2", "receiver: apply_delta returns the admission status unchanged, writes nothing on Reject, and "
                          "ends with (gc, max)' = (delta gc if reset else own gc, delta max)")
    rep.anchor("recv_admission", where(adm.fn))
    rep.anchor("recv_apply", where(app.fn))
    r.samples.extend(adm.describe())
    rep.floor("admission-rows", len(adm.rows), 4)
    rep.floor("apply-return-rows", len(app.ret_rows), 3)
    n = 0
    bad = None
    KK = min(K, 5)
    try:
        for rg in range(KK + 1):
            for rm in range(KK + 1):
                for frm in range(KK + 1):
                    for dg in range(KK + 1):
                        for dm in range(KK + 1):
                            n += 1
                            s = adm.status(rg, rm, frm, dg, dm)
                            a = adm.asg(rg, rm, frm, dg, dm)
                            effs = app.effects(a)
                            if not effs and bad is None:
                                bad = ("no-row", a)
                            for row, s2, g, m in effs:
                                if s2 != s:
                                    bad = bad or ("status-changed", a, s, s2)
                                    continue
                                if s == "Reject":
                                    if app.recv_writes(row):
                                        bad = bad or ("write-on-reject", a, s)
                                    continue
                                try:
                                    gv, mv = oe.ev(g, a), oe.ev(m, a)
                                except oe.NeedAtom as e:
                                    bad = bad or ("opaque-frontier", a, sym.fmt(e.atom)[:100])
                                    continue
                                eg = dg if s == "ApplyAfterReset" else rg
                                if (gv, mv) != (eg, dm):
                                    bad = bad or ("frontier", a, s, (gv, mv), (eg, dm))
    except ModelError as e:
        rep.violation("C14/R14.2/" + e.key, e.msg, e.where)
        return
    if bad:
        rep.obligation(False, "C14/R14.2/apply-effect/" + bad[0],
                       "apply_delta effect differs from (gc',max') = (reset ? dg : rg, dm): %s" % (bad[1:],),
                       where(app.fn), witness=[str(x) for x in bad], evaluations=n)
    else:
        rep.obligation(True, "", "", evaluations=n, sample="%d orderings of (rg,rm,from,dg,dm) in 0..%d: status/effects consistent" % (n, KK))
    rep.instance(len(adm.rows) + len(app.ret_rows))


# ------------------------------------------------------------------------- R14.3
def r14_3(ctx, rep, snd, adm, app, K, P="C14"):
    r = rep.rule("R14.3", "agreement: for every sender copy (sg,sm), receiver copy (rg,rm) and truncation point dm, the delta "
                          "the sender computes from the receiver's digest is applied (never refused as inapplicable / from "
                          "the future), is applied after reset exactly when rm < sg and rg < sg (then from = 0), and "
                          "strictly increases the receiver's (gc, max)")
    n = 0
    fails = {}
    classes = set()
    try:
        for sg in range(K + 1):
            for sm in range(K + 1):
                for rg in range(K + 1):
                    for rm in range(K + 1):
                        offered, frm, _ = snd.decide(sg, sm, rg, rm, True)
                        ahead = sm > rm
                        # 4. sender ahead <=> non-empty delta
                        if offered != ahead:
                            fails.setdefault("offered-iff-ahead", (sg, sm, rg, rm, offered))
                        if not offered:
                            n += 1
                            continue
                        dg = sg  # header gc = sender copy's gc (R14.1b)
                        for dm in [0] + list(range(frm + 1, sm + 1)):
                            n += 1
                            s = adm.status(rg, rm, frm, dg, dm)
                            classes.add((s, dm == 0, rg < sg, rm < sg))
                            want_reset = rm < sg and rg < sg
                            if dm > 0 and s == "Reject":
                                fails.setdefault("refused", (sg, sm, rg, rm, frm, dm, s))
                            if (s == "ApplyAfterReset") != want_reset and not (dm == 0 and not want_reset):
                                fails.setdefault("reset-iff-behind-gc", (sg, sm, rg, rm, frm, dm, s))
                            if s == "ApplyAfterReset" and frm != 0:
                                fails.setdefault("reset-from-nonzero", (sg, sm, rg, rm, frm, dm, s))
                            if dm == 0 and s not in ("ApplyAfterReset", "Reject"):
                                fails.setdefault("header-only-applied", (sg, sm, rg, rm, frm, dm, s))
                            if s != "Reject":
                                a = adm.asg(rg, rm, frm, dg, dm)
                                for row, s2, g, m in app.effects(a):
                                    if s2 != s:
                                        continue
                                    gv, mv = oe.ev(g, a), oe.ev(m, a)
                                    strict = (gv, mv) > (rg, rm)
                                    if not strict:
                                        fails.setdefault("no-strict-advance", (sg, sm, rg, rm, frm, dm, s, (gv, mv)))
    except ModelError as e:
        rep.violation(P + "/R14.3/" + e.key, e.msg, e.where)
        return
    except oe.NeedAtom as e:
        rep.violation(P + "/R14.3/opaque", "frontier after apply depends on %s" % sym.fmt(e.atom)[:120], where(app.fn))
        return
    names = {"offered-iff-ahead": "sender ahead <=> member offered",
             "refused": "a non-empty delta computed from the receiver's own digest is refused",
             "reset-iff-behind-gc": "reset happens exactly when rm < sg and rg < sg",
             "reset-from-nonzero": "a reset delta starts from version 0",
             "header-only-applied": "a header-only delta is either a reset or refused as no news",
             "no-strict-advance": "applying strictly increases (gc, max)"}
    for key, desc in names.items():
        w = fails.get(key)
        rep.obligation(w is None, P + "/R14.3/" + key,
                       "%s — violated for (sg,sm,rg,rm,from,dm,status..)=%s" % (desc, w), where(adm.fn), witness=list(w) if w else None,
                       evaluations=n // len(names), sample=desc + ": holds on all orderings")
    rep.count("orderings x truncation points", n)
    rep.count("distinct (status, header-only, rg<sg, rm<sg) classes", len(classes))
    rep.instance(n)


# ------------------------------------------------------------------------- R14.5
def r14_5(ctx, rep, adm, P="C14", rule="R14.5"):
    r = rep.rule(rule, "gap-free admission: an admitted incremental delta starts at or below the copy's max version; an admitted reset "
                       "delta starts at 0 — for every ordering of (copy gc/max, delta from/gc/max), including stale and reordered deltas")
    K = 5
    n = 0
    bad = {}
    for rg, rm, frm, dg, dm in itertools.product(range(K + 1), repeat=5):
        n += 1
        st = adm.status(rg, rm, frm, dg, dm)
        if st == "Apply" and frm > rm:
            bad.setdefault("apply-with-gap", (rg, rm, frm, dg, dm))
        if st == "ApplyAfterReset" and frm != 0:
            bad.setdefault("reset-not-from-zero", (rg, rm, frm, dg, dm))
    for k in ("apply-with-gap", "reset-not-from-zero"):
        w = bad.get(k)
        rep.obligation(w is None, "%s/%s/%s" % (P, rule, k),
                       "the receiver admits a delta that leaves a hole between what it holds and what the delta carries: (rg,rm,from,dg,dm)=%s" % (w,),
                       where(adm.fn), witness=list(w) if w else None, evaluations=n // 2,
                       sample="%s never happens on the grid 0..%d^5" % (k, K))
    rep.count("orderings", n)
    rep.instance(n)
