"""C20 — the catch-up callback fires exactly when gossip reset a copy (DESIGN §3 C20)."""
from ..core import sym, tables as T, orderenum as oe, callgraph
from ..core.anchors import where
from ..roles import Roles, NS
from .. import models
from ..models import ModelError, F

LEVEL = "other"
EXPLANATION = (
    "Structural decision on extracted tables: (R20.1) recv_apply calls reset_node exactly on the paths that return "
    "ApplyAfterReset, and that status is the admission result unchanged; (R20.2) ClusterState::apply_delta returns the OR-fold "
    "(initially false) of `status == ApplyAfterReset` over the member deltas that have a local copy; (R20.3) process_delta "
    "invokes the configured callback exactly once iff that boolean is true and a callback is configured, outside any loop, "
    "and process_message calls process_delta exactly once on the SYN-ACK and ACK arms and nowhere else. With C14/R14.2 this "
    "gives reset <=> (rm < dg and rg < dg and from = 0) for any delta.")
TRUSTED = ["Vec/BTreeMap iteration semantics"]
ASSUMPTIONS = ["the callback itself is user code and is not analysed"]


def run(ctx):
    rep = ctx.report
    fx = ctx.fx
    roles = Roles(fx)
    try:
        adm = models.Admission(fx, roles)
        app = models.Apply(fx, roles)
    except ModelError as e:
        rep.rule("R20.0", "table extraction")
        rep.violation("C20/" + e.key, e.msg, e.where)
        return
    r20_1(ctx, rep, roles, adm, app)
    r20_2(ctx, rep, roles, app)
    r20_3(ctx, rep, roles)
    from .. import identity
    identity.check(ctx, rep, "C20", "R20.4", ["status-eq", "id-eq"])


def r20_1(ctx, rep, roles, adm, app):
    r = rep.rule("R20.1", "recv_apply: reset_node is called iff the returned status is ApplyAfterReset")
    reset = roles.reset_node["id"]
    rep.anchor("recv_apply", where(app.fn))
    rep.anchor("reset_node", where(roles.reset_node))
    n = 0
    seen = set()
    for row in app.ret_rows:
        n += 1
        called = roles.reset_events(row, models.RECV)
        st = models.variant_of(row.ret)
        seen.add(st)
        rep.obligation((len(called) == 1) == (st == "ApplyAfterReset") and len(called) <= 1, "C20/R20.1/reset-iff-status",
                       "recv_apply returns %s on a path with %d reset_node calls" % (st, len(called)), where(app.fn),
                       sample="%s <=> %d reset_node call" % (st, len(called)))
    # the same for paths that are still inside the key-value loop (reset precedes the loop)
    for row in app.backedge_rows + app.panic_rows:
        called = roles.reset_events(row, models.RECV)
        adm_st = None
        for e in row.calls():
            pass
        rep.obligation(len(called) <= 1, "C20/R20.1/double-reset", "a copy is reset twice on one path", where(app.fn))
    rep.obligation("ApplyAfterReset" in seen, "C20/R20.1/no-reset-path", "recv_apply has no ApplyAfterReset path", where(app.fn))
    rep.floor("return-rows", n, 3)
    rep.instance(n)


def r20_2(ctx, rep, roles, app):
    r = rep.rule("R20.2", "ClusterState::apply_delta returns OR over member deltas of (status == ApplyAfterReset); members "
                          "without a local copy contribute nothing")
    fx = ctx.fx
    ca = roles.cluster_apply
    rep.anchor("cluster_apply", where(ca))
    eng = sym.Engine(fx, no_inline={app.fn["id"]})
    rows = eng.table(ca["id"], arg_terms={1: ("ptr", ("S", "self"), ()), 2: ("obj", ("S", "delta"))})
    ret_rows = [x for x in rows if x.exit == "return"]
    back = [x for x in rows if x.exit == "backedge"]
    # the returned value is the loop-carried accumulator, whose entry value is `false`
    accs = set()
    for row in ret_rows:
        t = row.ret
        ok = t is not None and t[0] == "loopvar" and t[2] == sym.FALSE
        rep.obligation(ok, "C20/R20.2/return-not-accumulator",
                       "the reset flag returned is %s, expected the accumulator initialised to false" % sym.fmt(t)[:100], where(ca),
                       sample="returns accumulator (initially false)")
        if ok:
            accs.add(t)
    if len(accs) != 1:
        rep.violation("C20/R20.2/accumulator", "cannot identify a single accumulator", where(ca))
        return
    acc = next(iter(accs))
    n_apply = 0
    for row in back:
        applied = [e for e in row.calls() if e[1] == app.fn["id"]]
        # local writes to the accumulator in this iteration
        body = row.events
        for i, e in enumerate(row.events):
            if e[0] == "loop" and e[1] == ca["id"]:
                body = row.events[i + 1:]
        ws = [e for e in body if e[0] == "lwrite" and e[2] == () and acc[1][2] == sym.fmt_root(e[1])]
        if not applied:
            rep.obligation(not ws, "C20/R20.2/flag-without-apply",
                           "the reset flag changes for a member delta that was not applied", where(ca),
                           sample="no local copy -> flag unchanged")
            continue
        n_apply += 1
        t = ws[-1][3] if ws else acc
        call = [x for x in T.subterms(t) if x[0] == "call" and x[1] == app.fn["id"]]
        for c in row.cond:
            call += [x for x in T.subterms(c[1]) if x[0] == "call" and x[1] == app.fn["id"]]
        ok = bool(call)
        wit = "the flag does not depend on this iteration's recv_apply status"
        if ok:
            call = call[0]
            variants = (("Reject", 0), ("Apply", 1), ("ApplyAfterReset", 2))
            checked = 0
            for old in (False, True):
                for st in ("Reject", "Apply", "ApplyAfterReset"):
                    val = ("aggv", "state::DeltaStatus", st, ())
                    asg = {acc: old, ("discr", call): st, call: val}
                    for x in T.subterms(t) + [y for c in row.cond for y in T.subterms(c[1])]:
                        if x[0] == "discr" and x[1] == call:
                            asg[x] = st
                    feasible = True
                    for c in row.cond:
                        try:
                            if not oe.holds(c, asg):
                                feasible = False
                        except oe.NeedAtom:
                            pass
                    if not feasible:
                        continue
                    checked += 1
                    try:
                        got = oe.ev(t, asg)
                    except oe.NeedAtom as e:
                        got = None
                    if got != (old or st == "ApplyAfterReset"):
                        ok = False
                        wit = "flag := %s evaluates to %s for old=%s status=%s" % (sym.fmt(t)[:80], got, old, st)
            ok = ok and checked > 0
        rep.obligation(ok, "C20/R20.2/or-fold", "reset flag is not `flag |= status == ApplyAfterReset`: %s" % wit, where(ca),
                       evaluations=6, sample="flag := flag | (recv_apply(..) == ApplyAfterReset)")
    rep.floor("apply-iterations", n_apply, 1)
    rep.instance(len(rows))


def r20_3(ctx, rep, roles):
    r = rep.rule("R20.3", "process_delta invokes the callback once iff a reset happened and a callback is configured; "
                          "process_message calls process_delta once on SYN-ACK and ACK only")
    fx = ctx.fx
    pd = roles.process_delta
    ca = roles.cluster_apply
    rep.anchor("process_delta", where(pd))
    eng = sym.Engine(fx, no_inline={ca["id"]})
    rows = eng.table(pd["id"], arg_terms={1: ("ptr", ("S", "self"), ()), 2: ("obj", ("S", "delta"))})
    CB = ("f", "configuration::ChitchatConfig", "catchup_callback")
    n = 0
    for row in rows:
        if row.exit != "return":
            rep.obligation(row.exit != "backedge", "C20/R20.3/loop", "process_delta loops", where(pd))
            continue
        n += 1
        applies = [e for e in row.calls() if e[1] == ca["id"]]
        cb_calls = [e for e in row.calls() if e[2] and any(CB in T_elems(a) for a in e[2][:1]) and "call" in e[1].split("::")[-1]]
        was_reset = None
        has_cb = None
        for c in row.cond:
            if c[0] == "truth" and c[1][0] == "call" and c[1][1] == ca["id"]:
                was_reset = c[2]
            if c[0] == "variant" and c[1][0] == "proj" and c[1][2] == CB and c[3]:
                has_cb = c[2] == "Some"
        expected = 1 if (was_reset is True and has_cb is True) else 0
        rep.obligation(len(applies) == 1, "C20/R20.3/apply-once", "process_delta applies the delta %d times" % len(applies), where(pd))
        rep.obligation(len(cb_calls) == expected, "C20/R20.3/callback-count",
                       "callback invoked %d times on the path (reset=%s, callback configured=%s), expected %d" % (
                           len(cb_calls), was_reset, has_cb, expected), where(pd),
                       sample="reset=%s callback=%s -> %d invocation" % (was_reset, has_cb, expected))
    rep.floor("process_delta-rows", n, 3)
    # any other call site of the callback field / of process_delta
    cg = callgraph.CallGraph(fx)
    callers = cg.callers_of(pd["id"])
    for cs in callers:
        rep.obligation(cs.caller == roles.process_message["id"], "C20/R20.3/process_delta-caller/%s" % cs.caller,
                       "process_delta is called from %s" % cs.caller, where(fx.fns[cs.caller], cs.line),
                       sample="process_delta called from process_message")
    try:
        pm = models.ProcessMessage(fx, roles)
    except ModelError as e:
        rep.violation("C20/" + e.key, e.msg, e.where)
        return
    want = {"Syn": 0, "SynAck": 1, "Ack": 1, "BadCluster": 0}
    for v, rows_v in pm.by_variant.items():
        for row in rows_v:
            k = len(pm.calls(row, "process_delta"))
            rep.obligation(k == want.get(v, 0), "C20/R20.3/process_delta-per-arm/%s" % v,
                           "process_message calls process_delta %d times on the %s arm, expected %d" % (k, v, want.get(v, 0)),
                           where(pm.fn), sample="%s arm: %d process_delta call" % (v, k))
            # the delta processed is the one carried by the message
            for e in pm.calls(row, "process_delta"):
                d = e[2][1]
                ok = d[0] == "proj" and d[2][0] == "f" and d[2][2] == "delta" and d[1][0] == "proj" and d[1][1] == ("obj", ("S", "msg"))
                rep.obligation(ok, "C20/R20.3/delta-provenance", "process_delta is fed %s, not the received delta" % sym.fmt(d)[:80],
                               where(pm.fn), sample="process_delta(msg.delta)")
    rep.floor("message-arms", len([v for v in pm.by_variant if v]), 4)
    # other users of the callback field
    users = []
    for fid, f in fx.fns.items():
        for b in f["blocks"]:
            if b["cleanup"]:
                continue
            for s in b["stmts"]:
                if s["k"] == "assign":
                    pls = [s["place"]] + ([s["rv"]["place"]] if "place" in s["rv"] else [])
                    for pl in pls:
                        if any(e["k"] == "field" and e.get("adt") == "configuration::ChitchatConfig" and e.get("name") == "catchup_callback" for e in pl["proj"]):
                            users.append(fid)
    for u in sorted(set(users)):
        root = fx.root_fn(u)
        rep.obligation(root == pd["id"], "C20/R20.3/callback-user/%s" % root,
                       "the catch-up callback field is used in %s" % u, where(fx.fns[u]), sample="callback field read in process_delta only")
    rep.floor("callback-field-users", len(set(users)), 1)
    rep.instance(n)


def T_elems(t):
    out = []
    for s in T.subterms(t):
        if s[0] == "proj":
            out.append(s[2])
        if s[0] == "ptr":
            out.extend(s[2])
    return out
