"""C12 — dead members: quarantine, removal, no revival (DESIGN §3 C12)."""
import itertools
from fractions import Fraction as Fr
from ..core import sym, tables as T, orderenum as oe, callgraph, inventory as inv
from ..core.anchors import where
from ..roles import Roles, NS, FD, CS
from .. import models
from ..models import ModelError, F
from . import c10, c01

LEVEL = "other"
EXPLANATION = (
    "Decided structurally on extracted tables: (R12.1) every path of update_node_liveness leaves the member in exactly one of "
    "live/dead (live: live+ dead-; dead: live- and dead+ only if absent, keeping the first time of death); garbage_collect "
    "removes exactly the collected ids from dead_nodes and node_samples; complete writer inventory of the three maps; (R12.2) "
    "the local node: live_nodes() = once(own id) ++ detector.live_nodes; in update_nodes_liveness both update_node_liveness "
    "and remove_node are guarded by id != own id and the loop ranges over all known members; (R12.3) scheduled-for-deletion "
    "<=> time_of_death + grace/2 < now; collected <=> now >= time_of_death + grace (all orderings of the three instants); "
    "(R12.4) exclusion from every digest/delta sent (= C01/R01.2 + sender skip); (R12.5) removal remembers (id, heartbeat at "
    "removal) in the LRU of constant capacity; (R12.6) copies are created only for the own id, by a digest heartbeat when the "
    "memory has no entry or a strictly lower heartbeat, or by catch-up when the memory has no entry; gossip deltas never create.")
TRUSTED = ["HashMap/HashSet/LruCache semantics", "Instant + Duration arithmetic"]
ASSUMPTIONS = ["more than 500 removed members (LRU eviction) and clock skew between survivors are outside the check"]


def run(ctx):
    rep = ctx.report
    fx = ctx.fx
    roles = Roles(fx)
    c10.r10_3(ctx, rep, roles, P="C12")
    from . import c11
    c11.r11_3(ctx, rep, roles, P="C12")   # a dead member's window is reset: one stale heartbeat cannot revive it
    ctx.report.rules[-1].id = "R12.1c"
    r12_1b(ctx, rep, roles)
    r12_2(ctx, rep, roles)
    r12_3(ctx, rep, roles)
    r12_4(ctx, rep, roles)
    r12_5(ctx, rep, roles)
    r12_6(ctx, rep, roles)
    from .. import wrappers
    wrappers.accessors(ctx, rep, roles, "C12", "R12.7")
    wrappers.digest_wrapper(ctx, rep, roles, "C12", "R12.8")
    from .. import identity
    identity.check(ctx, rep, "C12", "R12.9", ["id-eq", "id-hash", "id-ord", "id-clone", "hb-ord"])
    identity.check_keys(ctx, rep, "C12", "R12.10", ["fd-sets", "cluster", "digest"])
    # removal "at the next evaluation" needs an evaluation at the end of EVERY round, whatever the sends returned (seed R3-C12-2)
    from . import c19
    c19.r19_8(ctx, rep, roles, c19.server_methods(fx))
    ctx.report.rules[-1].id = "R12.11(R19.8)"


def r12_1b(ctx, rep, roles):
    r = rep.rule("R12.1b", "garbage_collect removes the collected ids from dead_nodes and node_samples; writer inventory of "
                           "live_nodes / dead_nodes / node_samples")
    fx = ctx.fx
    gc = roles.fd_garbage_collect
    eng = sym.Engine(fx)
    rows = eng.table(gc["id"], arg_terms={1: ("ptr", ("S", "self"), ())})
    n = 0
    for row in rows:
        rm = [e for e in row.calls() if sym.strip_all_generics(e[1]).endswith("HashMap::remove")]
        if not rm:
            continue
        n += 1
        targets = sorted(str(T.path_field(e[2][0][2])) for e in rm if e[2][0][0] == "ptr" and e[2][0][2])
        keys = {e[2][1] for e in rm}
        rep.obligation(targets == ["dead_nodes", "node_samples"] and len(keys) == 1, "C12/R12.1b/gc-removal",
                       "garbage_collect removes from %s with %d different keys" % (targets, len(keys)), where(gc),
                       sample="collected id removed from dead_nodes and node_samples")
    rep.floor("removal-rows", n, 1)
    allowed = {
        "live_nodes": {roles.fd_update_node_liveness["id"]},
        "dead_nodes": {roles.fd_update_node_liveness["id"], gc["id"]},
        "node_samples": {roles.fd_update_node_liveness["id"], gc["id"], roles.fd_get_or_create_window["id"]},
    }
    total = 0
    for field, ok_fns in allowed.items():
        for s in inv.field_writes(fx, FD, field):
            if s.kind == "mutborrow" or s.kind in ("assign", "calldest"):
                total += 1
                root = fx.root_fn(s.fn)
                rep.obligation(root in ok_fns, "C12/R12.1b/new-writer/%s/%s" % (field, root),
                               "FailureDetector.%s can be modified in %s" % (field, s.fn), s.where(), sample="%s modified in %s" % (field, root.split("::")[-1]))
    rep.floor("mutation-sites", total, 6)
    rep.instance(total)


def r12_2(ctx, rep, roles):
    r = rep.rule("R12.2", "the local node is always live and never evaluated or removed")
    fx = ctx.fx
    try:
        nl = models.NodesLiveness(fx, roles)
    except ModelError as e:
        rep.violation("C12/R12.2/" + e.key, e.msg, e.where)
        return
    rep.anchor("update_nodes_liveness", where(nl.fn))
    # live_nodes() = once(own) ++ fd.live_nodes
    ln = nl.live_nodes_fn
    ok = False
    if ln:
        eng = sym.Engine(fx)
        for row in eng.table(ln["id"], arg_terms={1: ("ptr", ("S", "self"), ())}):
            t = row.ret
            if t is not None and t[0] == "call" and t[1].endswith("::chain"):
                a, b = t[2][0], t[2][1]
                ok = (a[0] == "call" and a[1].endswith("once") and a[2][0] == ("ptr", ("S", "self"), (F("Chitchat", "config"), F("configuration::ChitchatConfig", "chitchat_id")))
                      and T.mentions_field(b, FD, "live_nodes"))
    rep.obligation(ok, "C12/R12.2/live-nodes-shape", "Chitchat::live_nodes is not once(own id) chained with the detector's live set",
                   where(ln) if ln else None, sample="live_nodes() = once(self id) ++ failure_detector.live_nodes()")
    n_u = n_r = 0
    for row in nl.rows:
        for e in nl.calls(row, "update_node_liveness"):
            n_u += 1
            idt = e[2][1]
            idv = idt
            rep.obligation(nl.not_self_guard(row, idv) is True, "C12/R12.2/self-evaluated",
                           "update_node_liveness can run for the node's own id", where(nl.fn, e[3][1]), sample="update_node_liveness guarded by id != self id")
            its = [s for s in T.subterms(idv) if s[0] == "call" and s[1].endswith("::next")]
            rep.obligation(bool(its), "C12/R12.2/loop-source", "the evaluated id does not come from the member iteration", where(nl.fn))
        for e in nl.calls(row, "remove_node"):
            n_r += 1
            idt = e[2][1]
            rep.obligation(nl.not_self_guard(row, idt) is True, "C12/R12.2/self-removed", "remove_node can run for the node's own id",
                           where(nl.fn, e[3][1]), sample="remove_node guarded by id != self id")
            gcs = [s for s in T.subterms(T.resolve_locals(nl.eng, row.store, idt)) if s[0] == "call" and s[1] == nl.keep["garbage_collect"]]
            rep.obligation(bool(gcs) or any(c[1][0] == "call" for c in row.cond), "C12/R12.2/removal-source",
                           "remove_node is not fed from garbage_collect's result", where(nl.fn))
    rep.floor("update_node_liveness-sites", n_u, 1)
    rep.floor("remove_node-sites", n_r, 1)
    # every OTHER member is evaluated: in the member loop the only reason not to evaluate an element is "it is the own id"
    # (seed R3-C11-2 skipped members scheduled for deletion: they could never come back to life)
    n_body = 0
    gcid = nl.keep["garbage_collect"]
    for row in nl.rows:
        if row.exit != "backedge" or any(e[1] == gcid for e in row.calls()):
            continue        # rows of the later phases
        allnext = [c for c in row.cond if c[0] == "variant" and c[1][0] == "call" and c[1][1].endswith("::next")]
        nxt = [c for c in allnext if c[2] == "Some" and c[3]]
        if not nxt or len(allnext) != 1:
            continue        # not a body path of the FIRST loop (the member loop): a later loop has the earlier ones exhausted
        n_body += 1
        others = [c for c in row.cond if c not in nxt]
        evaluated = bool(nl.calls(row, "update_node_liveness"))
        elem = T.proj(T.proj(nxt[0][1], ("v", "Some")), ("f", "std::option::Option", "0")) if hasattr(T, "proj") else sym.proj(sym.proj(nxt[0][1], ("v", "Some")), ("f", "std::option::Option", "0"))
        guard = nl.not_self_guard(row, elem)
        ok = len(others) == 1 and guard is not None and guard == evaluated
        rep.obligation(ok, "C12/R12.2/member-not-evaluated", "a member-loop path with conditions [%s] %s the element: the only admissible skip is the own id" % (
            "; ".join(sym.fmt_cond(c)[:70] for c in others), "evaluates" if evaluated else "skips"), where(nl.fn, row.site[1]),
            sample="member loop: evaluated <=> element != own id, no other condition")
    rep.floor("member-loop-paths", n_body, 2)
    # the member loop ranges over cluster_state.nodes() / node_states keys
    src_ok = False
    for row in nl.rows:
        for e in row.calls():
            if (e[1].endswith("::keys") or e[1].endswith("ClusterState::nodes")) and T.mentions_field(("agg", "", None, tuple(("x", a) for a in e[2])), CS, "node_states"):
                src_ok = True
            if e[1].endswith("ClusterState::nodes"):
                src_ok = True
    rep.obligation(src_ok, "C12/R12.2/all-members", "the liveness loop does not range over all known members", where(nl.fn),
                   sample="loop over cluster_state.nodes()")
    cg = callgraph.CallGraph(fx)
    for cs in cg.callers_of(roles.remove_node["id"]):
        rep.obligation(cs.caller == nl.fn["id"], "C12/R12.2/remove_node-caller/%s" % cs.caller, "remove_node is called from %s" % cs.caller,
                       where(fx.fns[cs.caller], cs.line), sample="remove_node called from update_nodes_liveness only")
    for cs in cg.callers_of(roles.fd_update_node_liveness["id"]):
        rep.obligation(cs.caller == nl.fn["id"], "C12/R12.2/update_node_liveness-caller/%s" % cs.caller,
                       "update_node_liveness is called from %s" % cs.caller, where(fx.fns[cs.caller], cs.line))
    rep.instance(n_u + n_r)


def r12_3(ctx, rep, roles):
    r = rep.rule("R12.3", "scheduled-for-deletion <=> tod + grace/2 < now; collected <=> now >= tod + grace")
    fx = ctx.fx
    sf = roles.fd_scheduled
    rep.anchor("fd_scheduled", where(sf))
    eng = sym.Engine(fx)
    GRACE = ("proj", ("proj", ("obj", ("S", "self")), F(FD, "config")), F("failure_detector::FailureDetectorConfig", "dead_node_grace_period"))
    rows = eng.table(sf["id"], arg_terms={1: ("ptr", ("S", "self"), ())})
    checked = 0
    for row in rows:
        fm = [e for e in row.calls() if e[1].endswith("::filter_map")]
        for e in fm:
            src, clo = e[2][0], e[2][1]
            rep.obligation(T.mentions_field(src, FD, "dead_nodes"), "C12/R12.3/scheduled/source", "scheduled set is not derived from dead_nodes", where(sf),
                           sample="scheduled: filter over dead_nodes")
            st = sym.St()
            st.store = dict(row.store)
            ENTRY = ("agg", "<tuple>", None, (("0", ("ptr", ("S", "eid"), ())), ("1", ("ptr", ("S", "tod"), ()))))
            outs = list(sym.call_closure(eng, st, clo, [ENTRY], 0, (sf["id"], 0)))

            def canon(t):
                if t == ("obj", ("S", "tod")):
                    return T.R("tod")
                if t[0] == "call" and t[1].endswith("Instant::now"):
                    return T.R("now")
                if t == GRACE:
                    return T.R("grace")
                return None
            bad = None
            n = 0
            for tod, now, grace in itertools.product(range(0, 5), range(0, 9), (0, 2, 4)):
                asg = {T.R("tod"): Fr(tod), T.R("now"): Fr(now), T.R("grace"): Fr(grace)}
                res = []
                for s2, ret in outs:
                    try:
                        if all(oe.holds(T.rewrite_cond(c, canon), asg) for c in s2.cond):
                            res.append(sym.is_some(ret))
                            if sym.is_some(ret) and ret[3][0][1] != ("ptr", ("S", "eid"), ()):
                                bad = bad or "yields %s, not the entry's id" % sym.fmt(ret[3][0][1])[:40]
                    except oe.NeedAtom as ex:
                        bad = bad or "predicate depends on %s" % sym.fmt(ex.atom)[:80]
                n += 1
                want = Fr(tod) + Fr(grace) / 2 < now
                if res != [want]:
                    bad = bad or "tod=%d grace=%d now=%d listed=%s expected %s" % (tod, grace, now, res, want)
            checked += 1
            rep.obligation(bad is None, "C12/R12.3/scheduled/predicate", "scheduled-for-deletion predicate: %s" % bad, where(sf), evaluations=n,
                           sample="listed iff tod + grace/2 < now (%d orderings)" % n)
    rep.floor("scheduled-predicates", checked, 1)
    # garbage_collect predicate
    gc = roles.fd_garbage_collect
    rows = eng.table(gc["id"], arg_terms={1: ("ptr", ("S", "self"), ())})
    n_push = 0
    first_loop = [x for x in rows if x.exit == "backedge" and not any(sym.strip_all_generics(e[1]).endswith("HashMap::remove") for e in x.calls())]
    tod_atoms = set()
    for row in first_loop:
        for c in row.cond:
            if c[0] == "truth":
                for a in oe.atoms_of(c[1], []):
                    if a != GRACE and not (a[0] == "call" and a[1].endswith("Instant::now")):
                        tod_atoms.add(a)
    if len(tod_atoms) != 1:
        rep.violation("C12/R12.3/collect/shape", "cannot identify the time-of-death operand of garbage_collect (%d candidates)" % len(tod_atoms), where(gc))
        return
    TOD = next(iter(tod_atoms))
    adds_of = {id(r): a for r, a in T.collection_items(eng, first_loop)}

    def canon2(t):
        if t == TOD:
            return T.R("tod")
        if t[0] == "call" and t[1].endswith("Instant::now"):
            return T.R("now")
        if t == GRACE:
            return T.R("grace")
        return None
    bad = None
    n = 0
    for tod, now, grace in itertools.product(range(0, 4), range(0, 8), (0, 1, 3)):
        asg = {T.R("tod"): tod, T.R("now"): now, T.R("grace"): grace}
        res = []
        for row in first_loop:
            try:
                if all(oe.holds(T.rewrite_cond(c, canon2), asg) for c in row.cond if c[0] == "truth"):
                    pushed = adds_of.get(id(row), [])     # Vec::push in a loop, or an item handed to collect()
                    res.append(bool(pushed))
            except oe.NeedAtom as ex:
                bad = bad or "depends on %s" % sym.fmt(ex.atom)[:60]
        n += 1
        if res != [now >= tod + grace]:
            bad = bad or "tod=%d grace=%d now=%d collected=%s" % (tod, grace, now, res)
    rep.obligation(bad is None, "C12/R12.3/collect/predicate", "garbage_collect predicate: %s" % bad, where(gc), evaluations=n,
                   sample="collected iff now >= tod + grace (%d orderings)" % n)
    rep.instance(checked + 1)


def r12_4(ctx, rep, roles):
    r = rep.rule("R12.4", "scheduled members are excluded from every digest and delta sent")
    try:
        pm = models.ProcessMessage(ctx.fx, roles)
        snd = models.Sender(ctx.fx, roles)
    except ModelError as e:
        rep.violation("C12/R12.4/" + e.key, e.msg, e.where)
        return
    try:
        for sg, sm, rg, rm in ((0, 1, 0, 0), (3, 5, 1, 2), (2, 6, 4, 4)):
            for present in (True, False):
                off, frm, _ = snd.decide(sg, sm, rg, rm, present, scheduled=True)
                rep.obligation(not off, "C12/R12.4/scheduled-member-offered", "a member in the exclusion set is still offered in a delta",
                               where(snd.fn), sample="scheduled member: not offered")
    except ModelError as e:
        rep.violation("C12/R12.4/" + e.key, e.msg, e.where)
    c01.r01_2(ctx, rep, roles, pm)
    ctx.report.rules[-1].id = "R12.4b"


def r12_5(ctx, rep, roles):
    r = rep.rule("R12.5", "removal bookkeeping: remove_node remembers (id, heartbeat at removal); LRU capacity is the crate constant")
    fx = ctx.fx
    rn = roles.remove_node
    eng = sym.Engine(fx)
    n = 0
    for row in eng.table(rn["id"], arg_terms={1: ("ptr", ("S", "self"), ()), 2: ("ptr", ("S", "id"), ())}):
        removed = None
        for c in row.cond:
            if c[0] == "variant" and c[1][0] == "call" and (c[1][1].endswith("::remove") or c[1][1].endswith("::remove_entry")) and c[3]:
                removed = c[2] == "Some"
        pushes = [e for e in row.calls() if e[1].endswith("::push") and e[2][0] == ("ptr", ("S", "self"), (F(CS, "garbage_collected_nodes"),))]
        if removed is None:
            rep.obligation(False, "C12/R12.5/shape", "remove_node does not remove from node_states first", where(rn))
            continue
        n += 1
        rep.obligation(len(pushes) == (1 if removed else 0), "C12/R12.5/remember", "removed=%s but %d memory entries pushed" % (removed, len(pushes)), where(rn),
                       sample="removed=%s -> %d memory entry" % (removed, 1 if removed else 0))
        for e in pushes:
            hb = e[2][2]
            ok = T.last_field(hb) == (NS, "heartbeat") and T.mentions_field(hb, "std::option::Option", "0")
            rep.obligation(ok or T.last_field(hb) == (NS, "heartbeat"), "C12/R12.5/remembered-heartbeat", "the remembered heartbeat is %s" % sym.fmt(hb)[:60], where(rn),
                           sample="memory[id] = removed_state.heartbeat")
            idv = e[2][1]
            # the id itself (a clone), or the owned key handed back by `remove_entry(id)`
            from_entry = any(x[0] == "call" and x[1].endswith("::remove_entry") and any(y[0] in ("ptr", "obj") and y[1] == ("S", "id") for y in T.subterms(x[2][1]))
                             for x in T.subterms(T.resolve_locals(eng, row.store, idv)))
            rep.obligation(any(s == ("obj", ("S", "id")) for s in T.subterms(idv)) or from_entry, "C12/R12.5/remembered-id", "the remembered id is %s" % sym.fmt(idv)[:60], where(rn))
    rep.floor("remove_node-rows", n, 2)
    # capacity constant
    sites = 0
    for f in fx.fns.values():
        for b in f["blocks"]:
            t = b["term"]
            if t["k"] == "call" and "LruCache" in (t["func"].get("fn", {}).get("path", "")) and t["func"]["fn"]["path"].endswith("::new"):
                sites += 1
                a = t["args"][0]
                ok = a["k"] == "const" and a.get("unevaluated", "").endswith("GARBAGE_COLLECTED_NODE_HISTORY_SIZE")
                rep.obligation(ok, "C12/R12.5/lru-capacity", "LruCache::new capacity is not the crate constant", "%s:%d" % (f["span"]["file"], t["span"]["line"]),
                               sample="LruCache::new(GARBAGE_COLLECTED_NODE_HISTORY_SIZE)")
    rep.floor("lru-constructions", sites, 1)
    rep.instance(n + sites)


def r12_6(ctx, rep, roles):
    r = rep.rule("R12.6", "creators of member copies: own id; digest heartbeat when memory has none or a strictly lower one; catch-up "
                          "when memory has none; never a delta")
    fx = ctx.fx
    cg = callgraph.CallGraph(fx)
    creator = roles.node_state_mut_or_init
    allowed = {roles.self_node_state["id"], roles.report_heartbeat["id"], roles.catchup["id"]}
    n = 0
    for cs in cg.callers_of(creator["id"]):
        n += 1
        rep.obligation(cs.caller in allowed, "C12/R12.6/new-creator/%s" % cs.caller, "%s can create a member copy" % cs.caller,
                       where(fx.fns[cs.caller], cs.line), sample="creator: %s" % cs.caller.split("::")[-1])
    rep.floor("creator-call-sites", n, 3)
    # direct inserts into node_states outside the creator
    for s in inv.field_writes(fx, CS, "node_states"):
        root = fx.root_fn(s.fn)
        if s.kind == "mutborrow":
            okfns = {creator["id"], roles.node_state_mut["id"], roles.remove_node["id"], roles.cs_gc["id"]}
            rep.obligation(root in okfns, "C12/R12.6/node_states-borrow/%s" % root, "node_states is mutably borrowed in %s" % s.fn, s.where(),
                           sample="node_states mutably borrowed in %s" % root.split("::")[-1])
    # self_node_state passes the own id
    eng = sym.Engine(fx, no_inline={creator["id"]})
    for row in eng.table(roles.self_node_state["id"], arg_terms={1: ("ptr", ("S", "self"), ())}):
        for e in row.calls():
            if e[1] == creator["id"]:
                ok = e[2][1] == ("ptr", ("S", "self"), (F("Chitchat", "config"), F("configuration::ChitchatConfig", "chitchat_id")))
                rep.obligation(ok, "C12/R12.6/self-node-state-id", "self_node_state creates the copy of %s" % sym.fmt(e[2][1])[:60], where(roles.self_node_state),
                               sample="self_node_state -> node_state_mut_or_init(&config.chitchat_id)")
    # report_heartbeat: create iff memory None or memory heartbeat < received heartbeat
    try:
        hr = models.HeartbeatReport(fx, roles)
    except ModelError as e:
        rep.violation("C12/R12.6/" + e.key, e.msg, e.where)
        return
    mem_call = None
    for row in hr.rows:
        for e in hr.calls(row, "memory"):
            mem_call = ("call", e[1], e[2], None)
    MEMHB = None
    n_rows = 0
    bad = None
    for row in hr.rows:
        if hr.self_check(row) is not False:
            continue
        n_rows += 1
        creates = bool(hr.calls(row, "create"))
        for mem, m, h in itertools.product(("None", "Some"), range(0, 4), range(0, 4)):
            asg = {}
            conds = []
            for c in row.cond:
                conds.append(c)
            # assign memory atoms
            ok = True
            for c in conds:
                if c[0] == "variant" and c[1][0] == "call" and c[1][1] == hr.keep["memory"]:
                    if (c[2] == mem) != c[3]:
                        ok = False
                elif c[0] == "truth":
                    atoms = oe.atoms_of(c[1], [])
                    a2 = {}
                    for a in atoms:
                        if T.mentions_field(a, "types::Heartbeat", "0") and any(s[0] == "call" and s[1] == hr.keep["memory"] for s in T.subterms(a)):
                            a2[a] = m
                        elif a == ("proj", ("obj", ("S", "hb")), F("types::Heartbeat", "0")):
                            a2[a] = h
                    if len(a2) == len(atoms) and atoms:
                        try:
                            if not oe.holds(c, a2):
                                ok = False
                        except oe.NeedAtom:
                            pass
            if not ok:
                continue
            want = mem == "None" or m < h
            if creates != want:
                bad = bad or "memory=%s%s received heartbeat=%d: %s" % (mem, "(%d)" % m if mem == "Some" else "", h, "creates" if creates else "does not create")
    rep.obligation(bad is None, "C12/R12.6/recreation-guard", "a removed member is (not) recreated wrongly: %s" % bad, where(hr.fn), evaluations=n_rows * 32,
                   sample="create iff memory has no entry or its heartbeat < received heartbeat")
    rep.floor("report-rows", n_rows, 5)
    # deltas never create
    reach = cg.reachable([roles.cluster_apply["id"]])
    rep.obligation(creator["id"] not in reach, "C12/R12.6/delta-creates", "applying a delta can create a member copy (via %s)" % cg.path(roles.cluster_apply["id"], creator["id"]),
                   where(roles.cluster_apply), sample="ClusterState::apply_delta never reaches the creating accessor")
    rep.instance(n + n_rows)
