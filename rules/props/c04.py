"""C04 — versions and replication frontiers only move forward (DESIGN §3 C04)."""
import itertools
from ..core import sym, tables as T, orderenum as oe, inventory as inv, callgraph
from ..core.anchors import where, AnchorLost
from ..roles import Roles, NS, ND
from .. import models, kv
from ..models import ModelError, F
from ..kv import VV, OLD_MAX, OLD_GC

LEVEL = "other"
EXPLANATION = (
    "Per-step obligations decided on decision tables extracted from MIR: (R04.1) every path of the four public mutators "
    "either writes nothing or stores exactly old max_version+1 and bumps max_version to it, with the no-op paths being "
    "exactly 'same value and same status' / 'key absent'; (R04.2) complete inventory of MIR writers of NodeState.max_version "
    "and .last_gc_version, each shown monotone on its extracted terms or confined to the reset arm; (R04.3) raw setters "
    "only called from catch-up with max(current, supplied); (R04.4) an occupied entry is overwritten only by a strictly "
    "newer version; (R04.5) the two monotonicity assertions reachable from message processing are implied by the extracted "
    "admission/apply tables for ARBITRARY deltas. The sequence clause follows by induction over steps (argued, not checked).")
TRUSTED = ["BTreeMap entry/get_mut semantics", "induction over message sequences from per-step monotonicity (paper argument)"]
ASSUMPTIONS = ["max_version + 1 does not overflow u64 (2^64 local writes)",
               "stored versions are <= the copy's max_version (maintained by set_versioned_value's max fold; used to discard "
               "the infeasible stale branch on local writes)"]


def run(ctx):
    rep = ctx.report
    fx = ctx.fx
    roles = Roles(fx)
    r04_1(ctx, rep, roles)
    r04_2(ctx, rep, roles)
    r04_3(ctx, rep, roles)
    r04_4(ctx, rep, roles)
    r04_5(ctx, rep, roles)


# ------------------------------------------------------------------------- R04.1
def r04_1(ctx, rep, roles):
    r = rep.rule("R04.1", "version allocation in set / set_with_ttl / delete / delete_after_ttl: effective paths store "
                          "old max+1 and set max_version to it; no-op paths are exactly the specified ones")
    fx = ctx.fx
    muts = kv.mutators(fx)
    NOOP_STATUS = {"set": "Set", "set_with_ttl": "DeleteAfterTtl"}
    for name, fn in sorted(muts.items()):
        rep.anchor(name, where(fn))
        eng, rows = kv.mutator_table(fx, fn)
        ret = [x for x in rows if x.exit == "return"]
        rep.instance(len(ret))
        n_noop = 0
        n_eff = 0
        for row in ret:
            if not kv.feasible(row):
                continue
            info = kv.cond_info(row)
            eff = kv.effective_writes(row)
            aggs = kv.vv_aggs(row)
            is_noop = not eff and not aggs
            desc = row.describe()
            if is_noop:
                n_noop += 1
                if name in NOOP_STATUS:
                    want = info["present"] is True and info["eq"] is True and info["status"] == (NOOP_STATUS[name], True)
                    rep.obligation(want, "C04/R04.1/%s/noop-path" % name,
                                   "%s returns without writing on a path that is not 'key present, value equal, status %s': %s"
                                   % (name, NOOP_STATUS[name], desc["guard"]), where(fn),
                                   sample="%s: no-op <= %s" % (name, " & ".join(desc["guard"])[:200]))
                else:
                    rep.obligation(info["present"] is False, "C04/R04.1/%s/noop-path" % name,
                                   "%s returns without writing although the key is present: %s" % (name, desc["guard"]), where(fn),
                                   sample="%s: no-op <= key absent" % name)
                continue
            n_eff += 1
            # effective path: max' = old + 1 and every stored version = old + 1
            mx = kv.final(eng, row, "max_version")
            vers = [T.field(a, "version") for _, a, _ in aggs] + [e[3] for e in kv.field_writes(row, VV, "version")]
            ok = True
            why = ""
            for old in range(0, 4):
                asg = {OLD_MAX: old}
                try:
                    if oe.ev(mx, asg) != old + 1:
                        ok, why = False, "max_version becomes %s for old max %d" % (oe.ev(mx, asg), old)
                    for v in vers:
                        if oe.ev(v, asg) != old + 1:
                            ok, why = False, "stored version is %s for old max %d" % (oe.ev(v, asg), old)
                except oe.NeedAtom as e:
                    ok, why = False, "version depends on %s" % sym.fmt(e.atom)[:100]
            if not vers:
                ok, why = False, "max_version changes but no key-value is stored"
            rep.obligation(ok, "C04/R04.1/%s/fresh-version" % name,
                           "%s: %s on path %s" % (name, why, desc["guard"]), where(fn), evaluations=4,
                           sample="%s: stored version = max' = old+1 <= %s" % (name, " & ".join(desc["guard"])[:160]))
            if name in NOOP_STATUS:
                # an effective path must not be one the spec says is a no-op
                bad = info["present"] is True and info["eq"] is True and info["status"] == (NOOP_STATUS[name], True)
                rep.obligation(not bad, "C04/R04.1/%s/rewrite-same-value" % name,
                               "%s allocates a new version although value and status are unchanged" % name, where(fn))
            else:
                rep.obligation(info["present"] is True, "C04/R04.1/%s/effective-on-absent" % name,
                               "%s writes on a path where the key is not known to be present" % name, where(fn))
        if name in NOOP_STATUS:
            rep.obligation(n_noop >= 1, "C04/R04.1/%s/noop-missing" % name,
                           "%s no longer has a path that leaves the state untouched when value and status are unchanged" % name, where(fn))
        else:
            rep.obligation(n_noop >= 1, "C04/R04.1/%s/noop-missing" % name,
                           "%s has no no-op path for an absent key" % name, where(fn))
        rep.obligation(n_eff >= 1, "C04/R04.1/%s/effective-missing" % name, "%s has no writing path" % name, where(fn))
    rep.floor("mutators", len(muts), 4)


# ------------------------------------------------------------------------- R04.2
WRITER_TABLE = {
    # field -> {role-name: reason}
    "max_version": {
        "set_versioned_value": "max(self.max_version, update.version) fold — monotone (checked on the extracted term)",
        "delete": "+= 1 (checked)", "delete_after_ttl": "+= 1 (checked)",
        "reset_node": "reset: allowed only on the ApplyAfterReset arm of recv_apply where the watermark strictly rises (R14.3)",
        "recv_apply": "final max_version := delta max; monotone by R04.5",
        "set_max_version": "raw setter; callers restricted by R04.3",
    },
    "last_gc_version": {
        "ns_gc": "max fold over collected versions starting from the current watermark (checked)",
        "reset_node": "reset arm only; strictly raises the watermark (R14.3)",
        "set_last_gc_version": "raw setter; callers restricted by R04.3",
    },
}


def setter(fx, field):
    cache = fx.__dict__.setdefault("_setter_cache", {})
    if field not in cache:
        cache[field] = _setter(fx, field)
    return cache[field]


def _setter(fx, field):
    cands = [f for f in fx.methods_of(NS) if not f.get("impl_trait") and f.get("inputs") == ["&mut state::NodeState", "u64"]
             and f.get("output") == "()"]
    out = []
    for f in cands:
        ws = [s for s in inv.field_writes(fx, NS, field) if s.fn == f["id"] and s.kind == "assign"]
        # a raw setter: single block, writes the field from its argument
        if ws and len(f["blocks"]) <= 2:
            out.append(f)
    return out


def r04_2(ctx, rep, roles):
    r = rep.rule("R04.2", "writer inventory of NodeState.max_version / .last_gc_version: every MIR write site belongs to a "
                          "known writer and is monotone on its extracted term")
    fx = ctx.fx
    muts = kv.mutators(fx)
    known = {
        "set_versioned_value": roles.set_versioned_value["id"], "delete": muts["delete"]["id"],
        "delete_after_ttl": muts["delete_after_ttl"]["id"], "reset_node": roles.reset_node["id"],
        "recv_apply": roles.recv_apply["id"], "ns_gc": roles.ns_gc["id"],
    }
    for field, nm in (("max_version", "set_max_version"), ("last_gc_version", "set_last_gc_version")):
        ss = setter(fx, field)
        for s in ss:
            known.setdefault(nm, s["id"])
    total = 0
    for field, table in WRITER_TABLE.items():
        allowed = {known[k]: k for k in table if k in known}
        sites = inv.field_writes(fx, NS, field)
        for s in sites:
            total += 1
            root = fx.root_fn(s.fn)
            ok = s.fn in allowed or (inv.is_derived(fx, root))
            rep.obligation(ok, "C04/R04.2/new-writer/%s/%s" % (field, root),
                           "NodeState.%s is written (%s) in %s, which is not a known writer" % (field, s.kind, s.fn),
                           s.where(), sample="%s written by %s: %s" % (field, allowed.get(s.fn, "derive"), table.get(allowed.get(s.fn, ""), "")))
    # whole-object overwrites (*self = ...)
    for s in inv.whole_writes(fx, NS):
        total += 1
        ok = s.fn == known["reset_node"]
        rep.obligation(ok, "C04/R04.2/whole-overwrite/%s" % s.fn, "a whole NodeState is overwritten through a reference in %s" % s.fn,
                       s.where(), sample="*self overwritten only in reset_node")
    rep.floor("writer-sites", total, 8)
    # monotonicity of the simple writers on their extracted terms
    for rolename in ("set_versioned_value", "delete", "delete_after_ttl", "ns_gc"):
        fn = fx.fns[known[rolename]]
        eng, rows = kv.mutator_table(fx, fn)
        for row in rows:
            if row.exit != "return":
                continue
            for field, old in (("max_version", OLD_MAX), ("last_gc_version", OLD_GC)):
                t = kv.final(eng, row, field)
                if t == old:
                    continue
                ok, wit = monotone(t, old)
                rep.obligation(ok, "C04/R04.2/not-monotone/%s/%s" % (rolename, field),
                               "%s can lower %s: new value %s (%s)" % (rolename, field, sym.fmt(t)[:120], wit), where(fn),
                               evaluations=64, sample="%s: %s' = %s >= old" % (rolename, field, sym.fmt(t)[:100]))
    # reset_node: only called from recv_apply, on the reset arm
    cg = callgraph.CallGraph(fx)
    callers = cg.callers_of(known["reset_node"]) if not roles.reset_node.get("inlined") else []
    for cs in callers:
        rep.obligation(cs.caller == known["recv_apply"], "C04/R04.2/reset-caller/%s" % cs.caller,
                       "reset_node is called from %s (only the receiver's reset arm may wipe a copy)" % cs.caller,
                       "%s:%d" % (fx.fns[cs.caller]["span"]["file"], cs.line), sample="reset_node called from recv_apply only")
    rep.floor("reset_node-callers", len(callers), 0 if roles.reset_node.get("inlined") else 1)


def monotone(t, old):
    """new >= old for all small values of the atoms; 'fold' terms are max folds verified in C06"""
    atoms = oe.atoms_of(t, [])
    folds = [a for a in atoms if a[0] == "call" and a[1].startswith("fold:")]
    others = [a for a in atoms if a not in folds and a != old]
    for vals in itertools.product(range(0, 4), repeat=len(others) + 1):
        asg = {old: vals[0]}
        asg.update(dict(zip(others, vals[1:])))
        for f in folds:
            # a verified max-fold starting from its argument: any value >= the start value
            asg[f] = oe.ev(f[2][0], asg) + 1
        try:
            if oe.ev(t, asg) < vals[0]:
                return False, "e.g. old=%d -> %s" % (vals[0], oe.ev(t, asg))
        except oe.NeedAtom as e:
            return False, "depends on %s" % sym.fmt(e.atom)[:80]
    return True, ""


# ------------------------------------------------------------------------- R04.3
def r04_3(ctx, rep, roles):
    r = rep.rule("R04.3", "the raw setters set_max_version / set_last_gc_version are called only from catch-up and only with "
                          "max(current, supplied)")
    fx = ctx.fx
    cg = callgraph.CallGraph(fx)
    catch = roles.catchup
    n = 0
    for field in ("max_version", "last_gc_version"):
        for s in setter(fx, field):
            for cs in cg.callers_of(s["id"]):
                n += 1
                rep.obligation(cs.caller == catch["id"], "C04/R04.3/raw-setter-caller/%s/%s" % (field, cs.caller),
                               "%s is called from %s" % (s["id"], cs.caller), "%s:%d" % (fx.fns[cs.caller]["span"]["file"], cs.line),
                               sample="%s called from catch-up only" % s["id"])
    # argument form in catch-up
    eng = sym.Engine(fx, no_inline=kv.listener_fns(fx) | {roles.set_versioned_value["id"]})
    rows = eng.table(catch["id"])
    checked = 0
    for row in rows:
        for e in row.calls():
            for field in ("max_version", "last_gc_version"):
                for s in setter(fx, field):
                    if e[1] == s["id"]:
                        checked += 1
                        arg = e[2][1]
                        cur_atoms = [a for a in oe.atoms_of(arg, []) if T.last_field(a) == (NS, field)
                                     or (a[0] == "loopvar" and field in str(a[1]))]
                        ok = bool(cur_atoms)
                        wit = "the argument does not mention the current %s" % field
                        if ok:
                            others = [a for a in oe.atoms_of(arg, []) if a not in cur_atoms]
                            for vals in itertools.product(range(0, 4), repeat=len(others) + 1):
                                asg = {a: vals[0] for a in cur_atoms}
                                asg.update(dict(zip(others, vals[1:])))
                                try:
                                    if oe.ev(arg, asg) < vals[0]:
                                        ok, wit = False, "argument %s can be below the current value" % sym.fmt(arg)[:100]
                                except oe.NeedAtom:
                                    ok, wit = False, "argument not evaluable"
                        rep.obligation(ok, "C04/R04.3/raw-setter-arg/%s" % field,
                                       "catch-up calls %s with %s: %s" % (s["id"], sym.fmt(arg)[:100], wit), where(catch, e[3][1]),
                                       evaluations=16, sample="%s(%s) >= current" % (s["id"].split("::")[-1], sym.fmt(arg)[:80]))
    rep.count("setter-call-sites", n)
    rep.count("setter-args-checked", checked)


# ------------------------------------------------------------------------- R04.4
def r04_4(ctx, rep, roles):
    r = rep.rule("R04.4", "set_versioned_value: an occupied entry is overwritten iff the update's version is strictly newer; "
                          "a vacant entry is always filled")
    fx = ctx.fx
    fn = roles.set_versioned_value
    rep.anchor("set_versioned_value", where(fn))
    eng = sym.Engine(fx, no_inline=kv.listener_fns(fx))
    rows = eng.table(fn["id"], arg_terms={1: ("ptr", kv.SELF, ()), 2: ("obj", ("S", "key")), 3: ("obj", ("S", "upd"))})
    UPDV = ("proj", ("obj", ("S", "upd")), F(VV, "version"))
    n_occ = n_vac = 0
    for row in rows:
        if row.exit != "return":
            continue
        info = kv.cond_info(row)
        stores = kv.vv_aggs(row) + [("field", None, e) for e in kv.field_writes(row, VV, "version")]
        if info["entry"] == "Vacant":
            n_vac += 1
            rep.obligation(bool(stores), "C04/R04.4/vacant-not-filled", "a vacant entry is not filled", where(fn),
                           sample="vacant entry -> insert")
        elif info["entry"] == "Occupied":
            n_occ += 1
            # semantic check of the staleness guard: overwrite <=> upd.version > stored.version
            conds = [c for c in row.cond if c[0] == "truth"]
            atoms = []
            for c in conds:
                oe.atoms_of(c[1], atoms)
            stored = [a for a in atoms if a != UPDV and T.last_field(a) == (VV, "version")]
            ok = len(stored) == 1
            wit = "no comparison with the stored version on this path"
            if ok:
                for u in range(0, 4):
                    for s_ in range(0, 4):
                        asg = {UPDV: u, stored[0]: s_}
                        try:
                            if all(oe.holds(c, asg) for c in conds):
                                if bool(stores) != (u > s_):
                                    ok, wit = False, "update version %d over stored %d: %s" % (u, s_, "overwritten" if stores else "ignored")
                        except oe.NeedAtom:
                            pass
            rep.obligation(ok, "C04/R04.4/stale-guard", "occupied entry: %s" % wit, where(fn), evaluations=16,
                           sample="occupied: overwritten iff update.version > stored.version")
    rep.floor("occupied-rows", n_occ, 2)
    rep.floor("vacant-rows", n_vac, 1)
    rep.instance(n_occ + n_vac)


# ------------------------------------------------------------------------- R04.5
def r04_5(ctx, rep, roles):
    r = rep.rule("R04.5", "the monotonicity assertions on the receive path (recv_apply: delta max >= max_version; "
                          "cluster apply: after >= before) are implied for arbitrary deltas")
    fx = ctx.fx
    try:
        adm = models.Admission(fx, roles)
        app = models.Apply(fx, roles)
    except ModelError as e:
        rep.violation("C04/R04.5/" + e.key, e.msg, e.where)
        return
    KMV = (ND, "key_values")
    # (a) in-loop writers of max_version are max folds with a key-value version of the delta
    n_w = 0
    for row in app.backedge_rows:
        in_loop = False
        for e in row.events:
            if e[0] == "loop" and e[1] == app.fn["id"]:
                in_loop = True
            if in_loop and e[0] == "write" and e[1] == models.RECV and e[2] == (F(NS, "max_version"),):
                n_w += 1
                t = e[3]
                atoms = oe.atoms_of(t, [])
                loopv = [a for a in atoms if a[0] == "loopvar"]
                vers = [a for a in atoms if T.last_field(a) == ("types::KeyValueMutation", "version")]
                ok = len(loopv) == 1 and len(vers) == 1 and len(atoms) == 2
                if ok:
                    for x in range(4):
                        for y in range(4):
                            if oe.ev(t, {loopv[0]: x, vers[0]: y}) != max(x, y):
                                ok = False
                rep.obligation(ok, "C04/R04.5/in-loop-writer", "recv_apply's loop writes max_version := %s, expected "
                               "max(current, key-value version)" % sym.fmt(t)[:120], where(app.fn), evaluations=16,
                               sample="in-loop: max_version := max(kv.version, max_version)")
    rep.floor("in-loop-writes", n_w, 1)
    # (b) the panic rows of recv_apply are exactly the assert `delta.max >= loop value of max_version`
    for row in app.panic_rows:
        last = row.cond[-1] if row.cond else None
        ok = False
        if last and last[0] == "truth":
            t = T.rewrite(last[1], models.canon_recv)
            atoms = oe.atoms_of(t, [])
            lv = [a for a in atoms if a[0] == "loopvar"]
            if len(lv) == 1 and T.R("dm") in atoms and len(atoms) == 2:
                # assert cond is dm >= loopvar, failing branch
                v1 = oe.ev(t, {T.R("dm"): 2, lv[0]: 1})
                v2 = oe.ev(t, {T.R("dm"): 1, lv[0]: 2})
                v3 = oe.ev(t, {T.R("dm"): 2, lv[0]: 2})
                ok = (v1, v2, v3) == (True, False, True) and last[2] is False
                # entry value of the loop variable is <= dm on this path (Apply: rm < dm; reset: 0)
                entry = T.rewrite(lv[0][2], models.canon_recv)
                conds = [T.rewrite_cond(c, models.canon_recv) for c in row.cond[:-1]]
                for vals in itertools.product(range(0, 5), repeat=5):
                    asg = dict(zip([T.R(x) for x in models.RECV_ROLES], vals))
                    try:
                        if all(oe.holds(c, asg) for c in conds if not oe.atoms_of(c[1], []) or all(
                                a in asg or a[0] != "loopvar" for a in oe.atoms_of(c[1], []))):
                            if oe.ev(entry, asg) > asg[T.R("dm")]:
                                ok = False
                    except oe.NeedAtom:
                        continue
        rep.obligation(ok, "C04/R04.5/unexplained-panic-path",
                       "recv_apply has an aborting path that is not the (implied) max-version assertion: %s" % (
                           row.describe()["guard"][-2:],), where(app.fn), evaluations=3125,
                       sample="assert!(delta.max >= self.max_version): loop value is a max fold of versions <= delta.max "
                              "(decoder invariant R09.3) starting below delta.max")
    rep.floor("assert-paths", len(app.panic_rows), 1)
    # (c) for ARBITRARY deltas: status != Reject => (g,m)' >= (rg,rm)  [assert in ClusterState::apply_delta]
    n = 0
    bad = None
    K = 5
    for vals in itertools.product(range(0, K + 1), repeat=5):
        rg, rm, frm, dg, dm = vals
        n += 1
        s = adm.status(*vals)
        a = adm.asg(*vals)
        for row, s2, g, m in app.effects(a):
            if s2 != s:
                continue
            if s == "Reject":
                continue
            gv, mv = oe.ev(g, a), oe.ev(m, a)
            if (gv, mv) < (rg, rm) and bad is None:
                bad = (vals, s, (gv, mv))
    rep.obligation(bad is None, "C04/R04.5/frontier-regresses",
                   "an admitted delta lowers the copy's (gc, max): %s" % (bad,), where(app.fn), evaluations=n,
                   sample="all %d (rg,rm,from,dg,dm): admitted => (gc,max)' >= (gc,max)" % n)
    # (d) the cluster-level assertion compares the same copy before/after exactly one recv_apply
    ca = roles.cluster_apply
    eng = sym.Engine(fx, no_inline={app.fn["id"]})
    rows = eng.table(ca["id"])
    n_calls = 0
    for row in rows:
        calls = [e for e in row.calls() if e[1] == app.fn["id"]]
        n_calls += len(calls)
        if len(calls) > 1:
            rep.obligation(False, "C04/R04.5/double-apply", "a member delta is applied twice per iteration", where(ca))
    rep.floor("recv_apply-call-rows", n_calls, 1)
    rep.instance(n)
