"""C09 — malformed or hostile datagrams cannot crash a node (DESIGN §3 C09, §2.6)."""
import itertools
from ..core import sym, tables as T, orderenum as oe, callgraph, inventory as inv, panics
from ..core.anchors import where, AnchorLost
from ..roles import Roles, NS, ND
from .. import models
from ..models import ModelError, F

LEVEL = "other"
EXPLANATION = (
    "Panic inventory over MIR: every panic-capable site (Assert terminators, calls to the panicking-callee table such as "
    "unwrap/expect/slice and str indexing/consume/advance/drain/Instant+Duration, and diverging calls from assert!/panic!/"
    "unreachable!) reachable in the call graph from the datagram entry points — UdpSocket::receive_one, "
    "ChitchatMessage::deserialize, Chitchat::process_message and the reply serialisation in UdpSocket::send — is enumerated and "
    "must be discharged: 64-bit additive overflow (argued), constant operands (auto), or an explicit table row that is either "
    "'guarded' and mechanically re-verified on every run (amount <= buffer length implied by the path conditions, successful "
    "get(..n) before consume/advance(n), constant index under a dominating length check), 'implied' by another rule that is "
    "run here (R09.3 decoder invariant, R09.4 assertions implied for arbitrary deltas), or 'argued' with a one-line reason. An "
    "unlisted site, or a guard that no longer verifies, is a violation.")
TRUSTED = ["panicking-callee table (rules/core/panics.py); panics inside zstd/tokio/std beyond that table are out of scope",
           "zstd::bulk::{compress,decompress}_to_buffer return at most the destination length"]
ASSUMPTIONS = ["the set of members known still fits a digest in one datagram (property's own precondition: budget subtraction and "
               "DeltaSerializer::with_mtu's mtu >= 100)",
               "memory exhaustion and state poisoning by well-formed lies (e.g. a huge gc version wiping a copy) are outside the statement",
               "failure-detector window size >= 1 (configuration)"]

G, I, A = "guarded", "implied", "argued"

# (owner type or module, site kind) -> (class, reason / verifier name)
TABLE = {
    ("[u8; N]", "call:index"): (G, "len-guard"),
    ("[u8; N]", "call:consume"): (G, "len-guard"),
    ("message::ChitchatMessage", "call:index"): (G, "len-guard"),
    ("message::ChitchatMessage", "assert:BoundsCheck"): (G, "bounds-assert"),
    ("message::ChitchatMessage", "call:unwrap"): (A, "try_into of a 2-byte slice (constant range 0..2) into [u8; 2]"),
    ("message::ChitchatMessage", "call:consume"): (G, "len-guard-or-first"),
    ("std::string::String", "call:consume"): (G, "len-guard"),
    ("serialize", "call:advance"): (G, "len-guard"),
    ("delta::Delta", "assert:Overflow(Sub)"): (A, "original_len - buf.len(): the cursor only shrinks"),
    ("delta::Delta", "diverge:assert_eq"): (I, "R08.4/R08.5 (C08): recorded length = bytes written, thresholds agree"),
    ("Chitchat", "assert:Overflow(Sub)"): (A, "MAX - header - own digest length: excluded by the stated precondition 'own digest fits'"),
    ("delta::DeltaSerializer", "diverge:assert"): (I, "mtu >= 100: stated precondition; apply_op(..).is_ok(): ops are produced in member/ascending-version "
                                                       "order (R07.4) from stored versions that are distinct and positive (R18.6, KF-2 excepted)"),
    ("delta::DeltaSerializer", "call:unwrap"): (A, "u16::try_from(min(16384, mtu)) always fits"),
    ("failure_detector::BoundedArrayStats", "assert:BoundsCheck"): (A, "index < capacity: index wraps at capacity-1 (R10.4); window size >= 1"),
    ("failure_detector::BoundedArrayStats", "assert:Overflow(Sub)"): (A, "capacity - 1 with window size >= 1 (configuration)"),
    ("failure_detector::FailureDetector", "call:div_f32"): (A, "constant divisor 2.0"),
    ("failure_detector::FailureDetector", "call:add"): (A, "time_of_death + grace/2: configuration value, not wire data"),
    ("listener::InnerListeners", "call:index"): (G, "char-boundary"),
    ("listener::Listeners", "call:unwrap"): (A, "RwLock poisoning requires an earlier panic under the lock"),
    ("serialize::CompressedStreamWriter", "diverge:assert"): (A, "item length > 0 (every op has a tag byte) and <= u16::MAX (admitted by try_add_op against mtu <= 65,507)"),
    ("serialize::CompressedStreamWriter", "call:index"): (A, "ranges bounded by min(len, threshold) / by the length zstd returned / full range"),
    ("serialize::CompressedStreamWriter", "call:unwrap"): (A, "compressed length <= block threshold <= 16,384 fits u16"),
    ("serialize::CompressedStreamWriter", "call:expect"): (A, "block length <= threshold <= 16,384 fits u16"),
    ("serialize::CompressedStreamWriter", "call:drain"): (A, "drain(..n) with n = min(len, threshold) <= len"),
    ("state::ClusterState", "diverge:assert"): (I, "R09.4: admitted => (gc,max)' >= (gc,max) for arbitrary deltas"),
    ("state::NodeState", "diverge:assert"): (I, "R09.3 + R09.4: delta max >= every key-value version and >= the copy's max on admitted paths"),
    ("types::Heartbeat", "call:expect"): (I, "R05.2/R05.3: only the own heartbeat is incremented, and it is never set from the wire (2^64 increments)"),
    ("transport::udp::UdpSocket", "call:index"): (A, "buf_recv[..len] with len returned by recv_from <= buffer length; buf_recv[..] full range"),
    ("[u8; N]/ser", "call:index"): (A, "full range of a fixed-size array"),
}


# number of sites per row confirmed by hand on the pinned tree: more sites of a kind than confirmed are reported, because an
# 'argued' row speaks about specific sites, not about every future site of that kind in the type
CONFIRMED = {('Chitchat', 'assert:Overflow(Sub)'): 1, ('[u8; N]', 'call:consume'): 1, ('[u8; N]', 'call:index'): 1, ('[u8; N]/ser', 'call:index'): 1, ('delta::Delta', 'assert:Overflow(Sub)'): 1, ('delta::Delta', 'diverge:assert_eq'): 1, ('delta::DeltaSerializer', 'call:unwrap'): 1, ('delta::DeltaSerializer', 'diverge:assert'): 2, ('failure_detector::BoundedArrayStats', 'assert:BoundsCheck'): 2, ('failure_detector::BoundedArrayStats', 'assert:Overflow(Sub)'): 1, ('failure_detector::FailureDetector', 'call:add'): 1, ('failure_detector::FailureDetector', 'call:div_f32'): 1, ('listener::InnerListeners', 'call:index'): 1, ('listener::Listeners', 'call:unwrap'): 1, ('message::ChitchatMessage', 'assert:BoundsCheck'): 1, ('message::ChitchatMessage', 'call:consume'): 2, ('message::ChitchatMessage', 'call:index'): 1, ('message::ChitchatMessage', 'call:unwrap'): 1, ('serialize', 'call:advance'): 2, ('serialize::CompressedStreamWriter', 'call:drain'): 1, ('serialize::CompressedStreamWriter', 'call:expect'): 1, ('serialize::CompressedStreamWriter', 'call:index'): 4, ('serialize::CompressedStreamWriter', 'call:unwrap'): 1, ('serialize::CompressedStreamWriter', 'diverge:assert'): 2, ('state::ClusterState', 'diverge:assert'): 1, ('state::NodeState', 'diverge:assert'): 1, ('std::string::String', 'call:consume'): 1, ('transport::udp::UdpSocket', 'call:index'): 2, ('types::Heartbeat', 'call:expect'): 1}


def owner_of(fx, fid):
    # a helper the pinned tree does not have belongs to the (single) known function that calls it
    owners = sorted(fx.attributed(fid)) if hasattr(fx, "attributed") else [fx.root_fn(fid)]
    root = fx.fns[owners[0] if owners else fx.root_fn(fid)]
    o = root.get("impl_self")
    if o:
        return o
    return "::".join(root["id"].split("::")[:-1]) or root["id"]


def entries(fx, roles):
    ent = {"process_message": roles.process_message["id"]}
    dec = [f["id"] for f in fx.fns.values() if f.get("impl_self") == "message::ChitchatMessage" and f.get("impl_trait") == "serialize::Deserializable"]
    ser = [f["id"] for f in fx.fns.values() if f.get("impl_self") == "message::ChitchatMessage" and f.get("impl_trait") == "serialize::Serializable"]
    if not dec or not ser:
        raise AnchorLost("message codec", "ChitchatMessage (de)serializer not found")
    ent["decode"] = dec[0]
    for i, s in enumerate(ser):
        ent["encode%d" % i] = s
    udp = [f["id"] for f in fx.fns.values() if (f.get("impl_self") == "transport::udp::UdpSocket") and f["kind"] == "method"]
    for u in udp:
        ent["udp:" + u.split("::")[-1]] = u
    if not any(k.startswith("udp:") for k in ent):
        raise AnchorLost("udp socket", "UdpSocket methods not found")
    return ent


def run(ctx):
    rep = ctx.report
    fx = ctx.fx
    roles = Roles(fx)
    r09_inventory(ctx, rep, roles)
    r09_3(ctx, rep, roles)
    r09_4(ctx, rep, roles)
    # rows of class 'implied' name rules of other properties; the ones about wire data are re-run here
    from . import c05
    c05.r05_2(ctx, rep, roles)
    ctx.report.rules[-1].id = "R09.5(R05.2)"
    c05.r05_3(ctx, rep, roles)
    ctx.report.rules[-1].id = "R09.5(R05.3)"
    # "leaves the live/dead classification invariants intact": exactly-one-set effect of the liveness decision
    from . import c10
    c10.r10_3(ctx, rep, roles, P="C09")
    ctx.report.rules[-1].id = "R09.6(R12.1)"
    # a datagram that decodes must not become a fatal receive error either (seed R3-C09-2)
    from . import c19
    c19.r19_2(ctx, rep)
    ctx.report.rules[-1].id = "R09.7(R19.2)"
    # the own-id guard (R05.2) and the member maps agree on what "the same id" is (seed R3-C09-1)
    from .. import identity
    identity.check(ctx, rep, "C09", "R09.8", ["id-eq", "id-ord", "id-hash"])


def r09_inventory(ctx, rep, roles, P="C09", ent=None, rule_id="R09.1", extra_table=None, extra_counts=None):
    r = rep.rule(rule_id, "panic inventory from the datagram entry points: every reachable panic-capable site is discharged")
    fx = ctx.fx
    cg = callgraph.CallGraph(fx)
    ent = ent or entries(fx, roles)
    for k, v in sorted(ent.items()):
        rep.anchor(k, v)
    reach, sites = panics.reachable_sites(fx, cg, list(ent.values()))
    rep.count("reachable-functions", len(reach))
    rep.count("panic-sites", len(sites))
    table = dict(TABLE)
    if extra_table:
        table.update(extra_table)
    classes = {}
    seen = {}
    tables_cache = {}

    def fn_rows(fid):
        if fid not in tables_cache:
            eng = sym.Engine(fx, inline_only=set(getattr(fx, "new_helpers", ())))
            try:
                tables_cache[fid] = (eng, eng.table(fid))
            except sym.Unanalysable:
                tables_cache[fid] = (eng, None)
        return tables_cache[fid]
    for s in sites:
        kind = s.kind
        owner = owner_of(fx, s.fn)
        if kind.startswith("assert:Overflow(") and kind[16:19] in ("Add", "Mul", "Shl") and overflow_type(fx, s) in ("usize", "u8", "isize"):
            # sums of in-memory lengths (usize) and of small tags (u8); arithmetic on 64-bit protocol integers (versions,
            # heartbeats: a datagram can carry u64::MAX) is NOT argued away — it needs a table row like any other site
            classes["argued:length-overflow"] = classes.get("argued:length-overflow", 0) + 1
            continue
        if not kind.startswith("diverge:") and panics.operand_is_constant(fx, s.fn, s):
            classes["constant-operand"] = classes.get("constant-operand", 0) + 1
            continue
        key = (owner, kind)
        if owner == "[u8; N]" and "Serializable>::serialize" in s.fn and "Deserializable" not in s.fn:
            key = ("[u8; N]/ser", kind)
        row = table.get(key)
        if row is None and kind == "call:index" and (key[0], "assert:BoundsCheck") in table:
            # `v[i]` on a Vec (Index::index call) instead of a boxed slice / array (BoundsCheck assertion): the same abort
            alt = (key[0], "assert:BoundsCheck")
            if seen.get(alt, 0) < ((extra_counts or {}).get(alt, CONFIRMED.get(alt)) or 0):
                key = alt
                row = table[alt]
        if row is None and kind in ("call:unwrap", "call:expect"):
            # unwrap / expect are the same abort; a site listed under one form may be rewritten into the other
            alt = (key[0], "call:expect" if kind == "call:unwrap" else "call:unwrap")
            if alt in table and seen.get(alt, 0) < ((extra_counts or {}).get(alt, CONFIRMED.get(alt)) or 0):
                key = alt
                row = table[alt]
        if row is None and kind in ("call:expect", "call:unwrap") and ensured_lookup(fx, fn_rows, s):
            # `map.get_mut(k).expect(..)` on paths where `map.contains_key(k)` held or `map.insert(k.clone(), ..)` just ran
            classes["guarded:ensured-lookup"] = classes.get("guarded:ensured-lookup", 0) + 1
            rep.obligation(True, "", "", sample="%s: lookup of a key that was just checked or inserted" % s.key())
            continue
        if row is None and kind == "diverge:panic":
            # `match x.checked_op() { Some(v) => v, None => panic!("same message") }` is `.expect("same message")` spelled out
            for alt in ((key[0], "call:expect"), (key[0], "call:unwrap")):
                if alt in table and table[alt][0] != G and seen.get(alt, 0) < ((extra_counts or {}).get(alt, CONFIRMED.get(alt)) or 0):
                    key = alt
                    row = table[alt]
                    break
        if row is None:
            rep.obligation(False, "%s/%s/unlisted-panic-site/%s/%s" % (P, rule_id, owner, kind),
                           "panic-capable site %s (%s) is reachable from the datagram path and is not discharged" % (s.key(), s.detail[-60:]),
                           s.where())
            continue
        cls, why = row
        seen[key] = seen.get(key, 0) + 1
        limit = (extra_counts or {}).get(key, CONFIRMED.get(key))
        if cls != G and limit is not None and seen[key] > limit:
            rep.obligation(False, "%s/%s/unlisted-panic-site/%s/%s" % (P, rule_id, owner, kind),
                           "a new %s site %s (%s) appeared in %s: %d sites were confirmed for the row '%s'" % (
                               kind, s.key(), s.detail[-50:], owner, limit, why[:60]), s.where())
            continue
        if cls == G:
            ok, detail = verify(fx, fn_rows, s, why)
            rep.obligation(ok, "%s/%s/guard-lost/%s/%s" % (P, rule_id, owner, kind),
                           "the guard of panic site %s no longer verifies: %s" % (s.key(), detail), s.where(), evaluations=36,
                           sample="%s: guarded (%s) re-verified" % (s.key(), why))
        else:
            rep.obligation(True, "", "", sample="%s: %s — %s" % (s.key(), cls, why))
        classes[cls] = classes.get(cls, 0) + 1
    for k, v in sorted(classes.items()):
        rep.count(k, v)
    rep.floor("panic-sites", len(sites), 40)
    rep.instance(len(sites))
    return sites


def ensured_lookup(fx, fn_rows, s):
    """every path of s.fn through this unwrap/expect applies it to `M.get(K)` / `M.get_mut(K)` after `M.contains_key(K)` was true
    or `M.insert(clone of K, ..)` ran, with no removal from M in between"""
    eng, rows = fn_rows(fx.root_fn(s.fn)) if fx.fns[s.fn].get("parent") is None else (None, None)
    if not rows:
        return False
    short = lambda n: sym.strip_all_generics(n).split("::")[-1]
    f_ = lambda t, row: sym.fmt(T.resolve_locals(eng, row.store, t)).lstrip("&")
    seen_any = False
    for row in rows:
        calls = row.calls()
        for i, e in enumerate(calls):
            if short(e[1]) not in ("expect", "unwrap") or "Option" not in e[1] or not e[3] or e[3][1] != s.line:
                continue
            seen_any = True
            src = T.resolve_locals(eng, row.store, e[2][0])
            if src[0] != "call" or short(src[1]) not in ("get", "get_mut") or len(src[2]) != 2:
                return False
            m, k = f_(src[2][0], row), f_(src[2][1], row)
            gi = max([j for j, g in enumerate(calls[:i]) if short(g[1]) in ("get", "get_mut") and f_(g[2][0], row) == m] or [-1])
            ok = False
            for c in row.cond:
                if c[0] == "truth" and c[2] is True and c[1][0] == "call" and short(c[1][1]) == "contains_key" and len(c[1][2]) == 2 \
                        and f_(c[1][2][0], row) == m and f_(c[1][2][1], row) == k:
                    ok = True
            last_mut = None
            for j, g in enumerate(calls[:gi if gi >= 0 else i]):
                if g[2] and f_(g[2][0], row) == m and short(g[1]) in ("insert", "remove", "remove_entry", "clear", "retain", "pop_first", "pop_last", "split_off", "append"):
                    last_mut = g
            if last_mut is not None:
                if short(last_mut[1]) == "insert":
                    kk = sym.fmt(T.resolve_locals(eng, row.store, last_mut[2][1]))
                    ok = kk.split("#")[0].endswith("Clone>::clone(&%s)" % k) or kk.lstrip("&") == k
                else:
                    ok = False
            if not ok:
                return False
    return seen_any


def overflow_type(fx, s):
    """integer type of the checked operation whose overflow flag an Overflow assertion tests"""
    f = fx.fns[s.fn]
    c = s.term.get("cond") or {}
    pl = c.get("place") if c.get("k") in ("move", "copy") else None
    if not pl:
        return None
    for l in f.get("locals") or []:
        if l["i"] == pl["local"]:
            ty = l["ty"].strip()
            if ty.startswith("(") and ty.endswith(", bool)"):
                return ty[1:-len(", bool)")]
            return ty
    return None


def verify(fx, fn_rows, s, how):
    eng, rows = fn_rows(s.fn)
    if rows is None:
        return False, "the function left the analysable fragment"
    kind = s.kind.split(":")[1]
    suffix = sym.strip_all_generics(s.detail).split("::")[-1]
    if how == "bounds-assert":
        ok, n, why = panics.verify_bounds_assert(eng, rows, s.line)
        return ok, why
    if how in ("len-guard", "len-guard-or-first"):
        ok, n, why = panics.verify_len_guard(eng, rows, s.line, suffix, kind)
        if not ok and how == "len-guard-or-first":
            # consume(1) after `buf.first()` succeeded
            ok2 = True
            found = 0
            for row in rows:
                for e in row.events:
                    if e[0] == "call" and e[3][1] == s.line and sym.strip_all_generics(e[1]).endswith(suffix):
                        found += 1
                        amt = e[2][1] if len(e[2]) > 1 else None
                        firsts = [c for c in row.cond if c[0] == "variant" and c[3] and c[2] in ("Some", "Ok") and any(
                            x[0] == "call" and x[1].endswith("::first") for x in T.subterms(c[1]))]
                        if not (amt == sym.C(1) and firsts):
                            ok2 = False
            return (ok2 and found > 0), why
        return ok, why
    if how == "char-boundary":
        from . import c15
        return c15.str_slice_ok(fx, eng, rows, s)
    return False, "unknown verifier " + how


# ------------------------------------------------------------------------- R09.3
def r09_3(ctx, rep, roles, P="C09"):
    r = rep.rule("R09.3", "decoder invariant: NodeDelta.max_version >= every key-value version (never lowered while a member delta is built)")
    fx = ctx.fx
    fn = roles.builder_apply_op
    rep.anchor("builder_apply_op", where(fn))
    eng = sym.Engine(fx)
    rows = eng.table(fn["id"], arg_terms={1: ("ptr", ("S", "self"), ()), 2: ("obj", ("S", "op"))})
    OP = ("obj", ("S", "op"))
    n_w = 0
    arms = set()
    for row in rows:
        arm = None
        for c in row.cond:
            if c[0] == "variant" and c[1] == OP and c[3]:
                arm = c[2]
        ws = [e for e in row.events if e[0] == "write" and e[2] and e[2][-1] == F(ND, "max_version")]
        pushes = [e for e in row.calls() if sym.strip_all_generics(e[1]).endswith("Vec::push") and T.mentions_field(e[2][0], ND, "key_values")]
        if arm == "KeyValue" and row.exit == "return" and row.ret is not None and row.ret[0] == "agg" and row.ret[2] == "Ok":
            arms.add(arm)
            ok = len(ws) == 1 and len(pushes) == 1
            rep.obligation(ok, P + "/R09.3/kv-arm-shape", "KeyValue arm: %d max_version writes, %d pushes" % (len(ws), len(pushes)), where(fn))
        for e in ws:
            n_w += 1
            new = e[3]
            olds = [a for a in oe.atoms_of(T.rewrite(new, lambda t: None), []) if T.last_field(a) == (ND, "max_version")]
            old_atoms = set()
            for c in row.cond:
                for a in oe.cond_atoms(c, []):
                    if T.last_field(a) == (ND, "max_version"):
                        old_atoms.add(a)
            conds = [c for c in row.cond if c[0] == "truth"]
            atoms = []
            for c in conds:
                oe.atoms_of(c[1], atoms)
            oe.atoms_of(new, atoms)
            olda = [a for a in atoms if T.last_field(a) == (ND, "max_version")]
            others = [a for a in atoms if a not in olda]
            ok = len(olda) == 1 and len(others) <= 1
            wit = "max_version is set on a path that does not compare it with the current value"
            if ok:
                for o, x in itertools.product(range(0, 4), repeat=2):
                    asg = {olda[0]: o}
                    for a in others:
                        asg[a] = x
                    try:
                        if all(oe.holds(c, asg) for c in conds if not [z for z in oe.atoms_of(c[1], []) if z not in asg]):
                            if oe.ev(new, asg) < o:
                                ok, wit = False, "max_version can go from %d to %s on the %s arm" % (o, oe.ev(new, asg), arm)
                    except oe.NeedAtom:
                        ok, wit = False, "not evaluable"
            rep.obligation(ok, P + "/R09.3/decoder-invariant/%s-can-lower" % arm, "decoder: %s" % wit, where(fn, e[4][1] if e[4] else None), evaluations=16,
                           sample="%s arm: max_version' = %s >= max_version" % (arm, sym.fmt(new)[:50]))
            if arm == "KeyValue":
                # the pushed mutation's version is the new max
                for pe in pushes:
                    kvv = sym.proj(pe[2][1], F("types::KeyValueMutation", "version"))
                    rep.obligation(kvv == new, P + "/R09.3/kv-version-is-max", "the pushed key-value's version %s is not the new max_version %s" % (
                        sym.fmt(kvv)[:40], sym.fmt(new)[:40]), where(fn), sample="KeyValue arm: max_version := kv.version")
    rep.floor("max_version-writes", n_w, 2)
    # exactly which (current max, carried version) pairs each arm ACCEPTS: KeyValue needs a strictly higher version, SetMaxVersion
    # accepts an equal one (the layout allows a redundant trailer; rejecting it refuses streams other encoders produce)
    WANT = {"KeyValue": lambda o, x: o < x, "SetMaxVersion": lambda o, x: o <= x}
    for arm, pred in WANT.items():
        arows = []
        for row in rows:
            a = None
            has_cur = None
            for c in row.cond:
                if c[0] == "variant" and c[1] == OP and c[3]:
                    a = c[2]
                if c[0] == "variant" and c[3] and c[2] in ("Some", "None") and T.mentions_field(c[1], "delta::DeltaBuilder", "current_node_delta"):
                    has_cur = c[2] == "Some"
            if a == arm and has_cur is True and row.exit == "return" and row.ret is not None and row.ret[0] == "agg" and row.ret[2] in ("Ok", "Err"):
                arows.append(row)
        bad = None
        n_ev = 0
        for o, x in itertools.product(range(0, 4), repeat=2):
            outcomes = set()
            for row in arows:
                conds = [c for c in row.cond if c[0] == "truth"]
                atoms = []
                for c in conds:
                    oe.atoms_of(c[1], atoms)
                asg = {}
                for at in atoms:
                    asg[at] = o if T.last_field(at) == (ND, "max_version") else x
                try:
                    if all(oe.holds(c, asg) for c in conds):
                        outcomes.add(row.ret[2])
                except oe.NeedAtom:
                    outcomes.add("?")
            n_ev += 1
            want = {"Ok"} if pred(o, x) else {"Err"}
            if outcomes != want:
                bad = bad or "current max %d, carried %d: outcomes %s, expected %s" % (o, x, sorted(outcomes), sorted(want))
        rep.obligation(bad is None and bool(arows), P + "/R09.3/acceptance/%s" % arm, "decoder %s arm: %s" % (arm, bad or "no rows"), where(fn), evaluations=n_ev,
                       sample="%s accepted <=> current max %s carried version" % (arm, "<" if arm == "KeyValue" else "<="))
    # other writers of NodeDelta.max_version / key_values
    for field in ("max_version", "key_values"):
        for s in inv.field_writes(fx, ND, field):
            root = fx.root_fn(s.fn)
            rep.obligation(root == fn["id"], P + "/R09.3/new-writer/%s/%s" % (field, root), "NodeDelta.%s is modified in %s" % (field, s.fn), s.where(),
                           sample="NodeDelta.%s only modified by the decoder's apply_op" % field)
    for s in inv.aggregates(fx, ND):
        mv = dict(zip(s.rv["fields"], s.rv["ops"])).get("max_version")
        ok = mv is not None and mv["k"] == "const" and mv.get("val") == 0
        rep.obligation(ok and fx.root_fn(s.fn) == fn["id"], P + "/R09.3/constructor", "a NodeDelta is constructed in %s with max_version %s" % (s.fn, mv), s.where(),
                       sample="NodeDelta constructed with max_version 0, no key-values")
    rep.instance(n_w)


def r09_4(ctx, rep, roles):
    from . import c04
    c04.r04_5(ctx, rep, roles)
    ctx.report.rules[-1].id = "R09.4"
