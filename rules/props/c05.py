"""C05 — single writer: gossip never changes a node's own namespace (DESIGN §3 C05)."""
import itertools
from ..core import sym, tables as T, orderenum as oe, callgraph, inventory as inv
from ..core.anchors import where
from ..roles import Roles, NS, CS
from .. import models
from ..models import ModelError, F

LEVEL = "other"
EXPLANATION = (
    "API-surface, heartbeat and admission clauses decided statically: (R05.1) the only function reachable from outside the "
    "crate that returns a mutable node state is Chitchat::self_node_state, which passes the node's own id to the creating "
    "accessor; the public &mut Chitchat entry points are exactly self_node_state and the catch-up entry; the public &mut "
    "NodeState methods are the documented local mutators; (R05.2) a digest entry for the own id reaches no writer; (R05.3) the "
    "own heartbeat is incremented only through self_node_state() from the constructor, process_message and the gossip round; "
    "(R05.4) tombstone GC (the only non-reset writer of the watermark) runs only from the gossip round; (R05.5) for the "
    "owner's copy every delta an honest — possibly stale or duplicated — peer can send (delta max <= own max, delta gc <= own "
    "max) is rejected by the extracted admission table, for all orderings; (R05.6) a sender offers nothing unless its copy is "
    "ahead of the digest; (R05.7) a key-value is only ever serialised under its own member header; (R05.8 = C04/R04.1) every local write publishes a version equal to the owner's new max_version (a key-value above the owner's own max lets a peer get ahead of the owner); (R05.9 = C04/R04.3) the raw setters are reachable on the receive path only through catch-up, never around admission. 'No message from honest "
    "peers alters own key-values' then follows because no honest copy is ahead of the owner — an induction over histories that "
    "is NOT checked.")
TRUSTED = ["the honest-copy invariant (a peer's max and gc never exceed the owner's max) — C03's undecided induction"]
ASSUMPTIONS = ["every ChitchatId is used by at most one incarnation (generation id contract)"]


def run(ctx):
    rep = ctx.report
    fx = ctx.fx
    roles = Roles(fx)
    r05_1(ctx, rep, roles)
    r05_2(ctx, rep, roles)
    r05_3(ctx, rep, roles)
    r05_4(ctx, rep, roles)
    r05_5(ctx, rep, roles)
    # "the owner is the most advanced copy" needs (a) every local write to publish a version <= the owner's max_version
    # (seed R2-C05-1) and (b) no receive path to the raw setters that bypasses admission (seed R2-C05-2)
    from . import c04
    c04.r04_1(ctx, rep, roles)
    ctx.report.rules[-1].id = "R05.8(R04.1)"
    c04.r04_3(ctx, rep, roles)
    ctx.report.rules[-1].id = "R05.9(R04.3)"
    from .. import wrappers
    wrappers.heartbeat_inc(ctx, rep, roles, "C05", "R05.10")
    from .. import identity
    identity.check(ctx, rep, "C05", "R05.11", ["id-eq", "id-ord", "id-hash"])
    # the admission test that protects the own namespace compares the DECODED max version of the member delta: the decoder must
    # attach SetMaxVersion to the current member only (seed R3-C05-2)
    from . import c03
    c03.r03_3(ctx, rep, roles)
    ctx.report.rules[-1].id = "R05.12(R03.3)"


PUB_CHITCHAT_MUT = {"self_node_state": "own copy only", "catchup": "documented catch-up entry (C18)"}
PUB_NODESTATE_MUT = {"set", "set_with_ttl", "delete", "delete_after_ttl", "set_max_version", "try_set_heartbeat"}


def r05_1(ctx, rep, roles):
    r = rep.rule("R05.1", "who can obtain a mutable node state from outside the crate")
    fx = ctx.fx
    n = 0
    allowed_ret = {roles.self_node_state["id"]}
    allowed_mut = {roles.self_node_state["id"]: "self_node_state", roles.catchup["id"]: "catchup"}
    for f in fx.fns.values():
        if f["kind"] not in ("fn", "method") or not f.get("reachable") or f["span"].get("macros"):
            continue
        out = f.get("output") or ""
        ins = f.get("inputs") or []
        if "&mut state::NodeState" in out or "IterMut" in out and "NodeState" in out or "MutexGuard" in out and "NodeState" in out:
            n += 1
            rep.obligation(f["id"] in allowed_ret, "C05/R05.1/mutable-state-exposed/%s" % f["id"],
                           "public function %s hands out a mutable NodeState" % f["id"], where(f), sample="&mut NodeState only from self_node_state")
        if "&mut state::ClusterState" in out or "&mut state::ClusterState" in ins and f.get("exported"):
            rep.obligation(False, "C05/R05.1/cluster-state-exposed/%s" % f["id"], "public function %s exposes the cluster state mutably" % f["id"], where(f))
        if "&mut Chitchat" in ins:
            n += 1
            rep.obligation(f["id"] in allowed_mut, "C05/R05.1/new-mutating-entry/%s" % f["id"],
                           "new public &mut Chitchat entry point %s (can it touch a foreign member's copy?)" % f["id"], where(f),
                           sample="pub &mut Chitchat entry: %s" % f["id"].split("::")[-1])
        if ins and ins[0] == "&mut state::NodeState":
            n += 1
            nm = f["id"].split("::")[-1]
            rep.obligation(nm in PUB_NODESTATE_MUT, "C05/R05.1/new-node-state-mutator/%s" % f["id"], "new public NodeState mutator %s" % f["id"], where(f),
                           sample="pub NodeState mutator: %s" % nm)
    rep.floor("public-mutating-surface", n, 8)
    # reachability of internal mutators from outside: they must not be nameable
    for role in ("process_message", "cluster_apply", "node_state_mut", "node_state_mut_or_init", "remove_node", "recv_apply", "reset_node"):
        f = getattr(roles, role)
        rep.obligation(not f.get("reachable"), "C05/R05.1/internal-reachable/%s" % role, "%s is reachable from outside the crate" % f["id"], where(f),
                       sample="%s not nameable outside the crate" % role)
    cs_adt = fx.adts.get(CS)
    rep.obligation(cs_adt is not None and not cs_adt.get("reachable"), "C05/R05.1/cluster-state-type", "ClusterState is nameable outside the crate", None,
                   sample="ClusterState not exported")
    # self_node_state passes the own id
    eng = sym.Engine(fx, no_inline={roles.node_state_mut_or_init["id"]})
    for row in eng.table(roles.self_node_state["id"], arg_terms={1: ("ptr", ("S", "self"), ())}):
        for e in row.calls():
            if e[1] == roles.node_state_mut_or_init["id"]:
                ok = e[2][1] == ("ptr", ("S", "self"), (F("Chitchat", "config"), F("configuration::ChitchatConfig", "chitchat_id")))
                rep.obligation(ok, "C05/R05.1/self-node-state-id", "self_node_state returns the copy of %s" % sym.fmt(e[2][1])[:60], where(roles.self_node_state),
                               sample="self_node_state() -> copy of config.chitchat_id")
    rep.instance(n)


def r05_2(ctx, rep, roles):
    r = rep.rule("R05.2", "a digest entry for the node's own id reaches no writer")
    try:
        hr = models.HeartbeatReport(ctx.fx, roles)
    except ModelError as e:
        rep.violation("C05/R05.2/" + e.key, e.msg, e.where)
        return
    rep.anchor("report_heartbeat", where(hr.fn))
    n_self = 0
    for row in hr.rows:
        sc = hr.self_check(row)
        writers = [k for k in ("try_set_heartbeat", "fd_report", "create", "lookup") if hr.calls(row, k)]
        if sc is True:
            n_self += 1
            rep.obligation(not writers and not row.writes(), "C05/R05.2/self-entry-has-effect", "a digest entry for the own id reaches %s" % writers, where(hr.fn),
                           sample="own id: immediate return")
        elif sc is None:
            rep.obligation(not writers, "C05/R05.2/unguarded-writer", "%s can run on a path that does not compare the id with the own id" % writers, where(hr.fn),
                           sample="writers only after the own-id check")
    rep.floor("self-rows", n_self, 1)
    rep.instance(len(hr.rows))


def r05_3(ctx, rep, roles):
    r = rep.rule("R05.3", "own heartbeat only by own activity")
    fx = ctx.fx
    cg = callgraph.CallGraph(fx)
    inc = [f for f in fx.methods_of(NS) if f.get("inputs") == ["&mut state::NodeState"] and f.get("output") == "()" and f["id"].endswith("inc_heartbeat")]
    if len(inc) != 1:
        # find by effect: the method that mutably borrows self.heartbeat and calls Heartbeat::inc
        inc = [fx.fns[s.fn] for s in inv.field_writes(fx, NS, "heartbeat") if s.kind == "mutborrow"]
    if not inc:
        rep.violation("C05/R05.3/anchor", "cannot find the heartbeat increment", None)
        return
    inc = inc[0]
    sns = roles.self_node_state["id"]
    callers = cg.callers_of(inc["id"])
    for cs in callers:
        f = fx.fns[cs.caller]
        eng = sym.Engine(fx, no_inline={sns, inc["id"]}, inline_only=set(getattr(fx, "new_helpers", ())))
        okc = False
        for row in eng.table(cs.real_caller):
            for e in row.calls():
                if e[1] == inc["id"]:
                    recv = T.resolve_locals(eng, row.store, e[2][0])
                    okc = any(s[0] == "call" and s[1] == sns for s in T.subterms(recv)) or (recv[0] == "ptr" and recv[1][0] == "D" and recv[1][1][0] == "call" and recv[1][1][1] == sns)
        rep.obligation(okc, "C05/R05.3/inc-receiver/%s" % cs.caller, "inc_heartbeat is applied in %s to something other than self_node_state()" % cs.caller,
                       where(f, cs.line), sample="%s: self_node_state().inc_heartbeat()" % cs.caller.split("::")[-1])
    rep.floor("inc_heartbeat-callers", len(callers), 2)
    ush = roles.update_self_heartbeat["id"]
    allowed = {roles.process_message["id"]}
    for cs in cg.callers_of(ush):
        root = fx.root_fn(cs.caller)
        ok = cs.caller in allowed or root.endswith("Server::gossip_multiple")
        rep.obligation(ok, "C05/R05.3/update_self_heartbeat-caller/%s" % root, "update_self_heartbeat is called from %s" % cs.caller, where(fx.fns[cs.caller], cs.line),
                       sample="update_self_heartbeat from %s" % root.split("::")[-1])
    # every writer of NodeState.heartbeat
    okw = {inc["id"]: "+1 on own copy", roles.try_set_heartbeat["id"]: "digest heartbeat of another member (R05.2)"}
    for s in inv.field_writes(fx, NS, "heartbeat"):
        root = fx.root_fn(s.fn)
        rep.obligation(s.fn in okw or inv.is_derived(fx, root), "C05/R05.3/heartbeat-writer/%s" % root, "NodeState.heartbeat can be written in %s" % s.fn, s.where(),
                       sample="heartbeat writer: %s" % s.fn.split("::")[-1])
    rep.instance(len(callers))


def r05_4(ctx, rep, roles):
    r = rep.rule("R05.4", "tombstone GC only from the node's own gossip round")
    fx = ctx.fx
    cg = callgraph.CallGraph(fx)
    chain = [(roles.ns_gc["id"], {roles.cs_gc["id"]}), (roles.cs_gc["id"], {roles.chitchat_gc_keys["id"]})]
    for callee, ok_callers in chain:
        for cs in cg.callers_of(callee):
            rep.obligation(cs.caller in ok_callers, "C05/R05.4/gc-caller/%s" % cs.caller, "%s is called from %s" % (callee, cs.caller),
                           where(fx.fns[cs.caller], cs.line), sample="%s <- %s" % (callee.split("::")[-1], cs.caller.split("::")[-1]))
    n = 0
    for cs in cg.callers_of(roles.chitchat_gc_keys["id"]):
        n += 1
        root = fx.root_fn(cs.caller)
        rep.obligation(root.endswith("Server::gossip_multiple"), "C05/R05.4/gc-entry/%s" % root, "tombstone GC is triggered from %s" % cs.caller,
                       where(fx.fns[cs.caller], cs.line), sample="gc_keys_marked_for_deletion <- gossip_multiple")
    rep.floor("gc-entry-sites", n, 1)
    rep.instance(n)


def r05_5(ctx, rep, roles):
    r = rep.rule("R05.5", "the owner's copy rejects every delta an honest (possibly stale or duplicated) peer can send; a sender offers "
                          "nothing unless it is ahead")
    fx = ctx.fx
    try:
        adm = models.Admission(fx, roles)
        snd = models.Sender(fx, roles)
    except ModelError as e:
        rep.violation("C05/R05.5/" + e.key, e.msg, e.where)
        return
    K = 5
    n = 0
    bad = None
    for rg, rm, frm, dg, dm in itertools.product(range(K + 1), repeat=5):
        if not (dm <= rm and dg <= rm and frm <= rm):
            continue
        n += 1
        s = adm.status(rg, rm, frm, dg, dm)
        if s != "Reject" and bad is None:
            bad = (rg, rm, frm, dg, dm, s)
    rep.obligation(bad is None, "C05/R05.5/own-copy-altered",
                   "owner at (gc,max)=(%s,%s) admits (from,gc,max)=(%s,%s,%s) as %s although the peer is not ahead" % (bad or (0,) * 6),
                   where(adm.fn), evaluations=n, sample="%d orderings with delta max/gc/from <= own max: all Reject" % n)
    n2 = 0
    bad2 = None
    try:
        for sg, sm, rg, rm in itertools.product(range(K + 1), repeat=4):
            n2 += 1
            off, frm, _ = snd.decide(sg, sm, rg, rm, True)
            if off and not sm > rm and bad2 is None:
                bad2 = (sg, sm, rg, rm)
    except ModelError as e:
        rep.violation("C05/R05.6/" + e.key, e.msg, e.where)
        return
    rep.obligation(bad2 is None, "C05/R05.6/offer-when-not-ahead", "a sender at (gc,max)=(%s,%s) offers a delta to a peer at (%s,%s)" % (bad2 or (0,) * 4),
                   where(snd.fn), evaluations=n2, sample="offered => sender max > digest max")
    from . import c07
    c07.kv_under_own_header(ctx, rep, roles, snd, P="C05/R05.7")
    rep.instance(n + n2)
