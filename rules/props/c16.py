"""C16 — clusters with different ids stay isolated (DESIGN §3 C16)."""
from ..core import sym, tables as T, orderenum as oe, callgraph, inventory as inv
from ..core.anchors import where
from ..roles import Roles
from .. import models
from ..models import ModelError, F

LEVEL = "other"
EXPLANATION = (
    "Decided on the extracted table of Chitchat::process_message: (R16.1) on the SYN arm the received cluster id is compared "
    "for plain string inequality with the configured id (no normalisation on either operand); on the 'different' side the only "
    "exit returns BadCluster and no state-changing callee is called; every state-changing callee lies on the 'equal' side. The "
    "single effect before the comparison is update_self_heartbeat, whose reachable writes are confined to the node's own "
    "heartbeat/copy creation (checked by call-graph + writer inventory). (R16.2) the BadCluster arm calls nothing else and "
    "returns None. (R16.3) create_syn_message copies config.cluster_id; SYN-ACK and ACK values are only constructed as replies "
    "in process_message (and by the decoder); the configuration is never written after construction.")
TRUSTED = ["String/str equality"]
ASSUMPTIONS = ["two-cluster schedules as such are not explored: an honest foreign node answers BadCluster and never sends a SYN-ACK"]

CFG_CLUSTER = ("f", "configuration::ChitchatConfig", "cluster_id")


def run(ctx):
    rep = ctx.report
    fx = ctx.fx
    roles = Roles(fx)
    try:
        pm = models.ProcessMessage(fx, roles)
    except ModelError as e:
        rep.rule("R16.0", "table extraction")
        rep.violation("C16/" + e.key, e.msg, e.where)
        return
    r16_1(ctx, rep, roles, pm)
    r16_2(ctx, rep, roles, pm)
    r16_3(ctx, rep, roles, pm)


def strip_havoc(t):
    """config fields are never written (R16.3): look through the engine's havoc wrappers"""
    VIEWS = ("as_str", "deref", "as_ref", "borrow", "as_bytes", "as_mut_str")     # the same characters, another type

    def f(x):
        if x[0] == "call" and x[1].startswith("havoc:"):
            return T.rewrite(x[2][0], f)
        if x[0] == "call" and len(x[2]) == 1 and sym.strip_all_generics(x[1]).split("::")[-1] in VIEWS:
            return T.rewrite(x[2][0], f)
        if x[0] in ("ptr", "obj") and x[1][0] == "D" and (x[0] == "obj" or not x[2]):
            return T.rewrite(x[1][1], f)
        return None
    return T.rewrite(t, f)


def r16_1(ctx, rep, roles, pm):
    r = rep.rule("R16.1", "SYN arm: cluster ids compared (string inequality, no normalisation) before any effect; mismatch => only "
                          "BadCluster")
    rep.anchor("process_message", where(pm.fn))
    rows = pm.by_variant.get("Syn", [])
    rep.floor("syn-rows", len(rows), 2)
    RECV_ID = ("proj", ("proj", ("obj", ("S", "msg")), ("v", "Syn")), ("f", "message::ChitchatMessage", "cluster_id"))
    effectful = ("process_delta", "report_heartbeats_in_digest", "compute_delta", "compute_digest", "scheduled")
    n_cmp = 0
    for row in rows:
        cmpc = None
        for c in row.cond:
            if c[0] == "truth" and c[1][0] == "op" and c[1][1] in ("Ne", "Eq"):
                a, b = strip_havoc(T.resolve_locals(pm.eng, row.store, c[1][2])), strip_havoc(T.resolve_locals(pm.eng, row.store, c[1][3]))
                if RECV_ID in (a, b):
                    cmpc = (c, a, b)
        if cmpc is None:
            rep.obligation(False, "C16/R16.1/no-comparison", "a SYN path does not compare the received cluster id (or compares a "
                           "transformed value): %s" % row.describe()["guard"][:3], where(pm.fn))
            continue
        n_cmp += 1
        c, a, b = cmpc
        other = b if a == RECV_ID else a
        ok = other[0] == "proj" and other[2] == CFG_CLUSTER and T.mentions_field(other, "Chitchat", "config")
        rep.obligation(ok, "C16/R16.1/operands", "the received cluster id is compared with %s, not the configured cluster id" % sym.fmt(other)[:80],
                       where(pm.fn), sample="received cluster_id != self.config.cluster_id (plain string comparison)")
        different = (c[1][1] == "Ne") == c[2]
        called = [role for role in effectful if pm.calls(row, role)]
        if different:
            rep.obligation(not called, "C16/R16.1/effect-on-mismatch", "a SYN from a different cluster still reaches %s" % called, where(pm.fn),
                           sample="mismatch: no state-changing callee")
            rep.obligation(pm.ret_variant(row) == "BadCluster", "C16/R16.1/reply-on-mismatch",
                           "a SYN from a different cluster is answered with %s" % pm.ret_variant(row), where(pm.fn), sample="mismatch -> BadCluster")
        else:
            rep.obligation(pm.ret_variant(row) == "SynAck", "C16/R16.1/reply-on-match", "a SYN of the same cluster is answered with %s" % pm.ret_variant(row),
                           where(pm.fn), sample="match -> SynAck")
            # every effectful call happens after the comparison
            ci = None
            for i, e in enumerate(row.events):
                if e[0] == "call" and ("PartialEq" in e[1] or e[1].endswith("::ne") or e[1].endswith("::eq")) and any(
                        RECV_ID in T.subterms(strip_havoc(T.resolve_locals(pm.eng, row.store, pm.eng.read_rp(models._St(row.store), x[1], x[2]) if x[0] == "ptr" else x))) for x in e[2]):
                    ci = i
            for role in effectful:
                for e in pm.calls(row, role):
                    rep.obligation(ci is not None and row.events.index(e) > ci, "C16/R16.1/effect-before-check/%s" % role,
                                   "%s runs before the cluster id is checked" % role, where(pm.fn, e[3][1]),
                                   sample="%s after the cluster-id check" % role)
    rep.floor("comparisons", n_cmp, 2)
    # the only pre-check effect: update_self_heartbeat, confined to own heartbeat
    fx = ctx.fx
    cg = callgraph.CallGraph(fx)
    ush = roles.update_self_heartbeat
    reach = cg.reachable([ush["id"]])
    allowed_fields = {("state::NodeState", "heartbeat"), ("types::Heartbeat", "0"), ("state::ClusterState", "node_states"),
                      ("state::ClusterState", "garbage_collected_nodes"), ("Chitchat", "cluster_state")}
    bad = []
    for g in reach:
        for b in fx.fns[g]["blocks"]:
            if b["cleanup"]:
                continue
            for s in b["stmts"]:
                if s["k"] == "assign" and any(e["k"] == "deref" for e in s["place"]["proj"]):
                    fields = [(e.get("adt"), str(e.get("name"))) for e in s["place"]["proj"] if e["k"] == "field"]
                    if fields and not any(f in allowed_fields for f in fields) and not fields[-1][0] in (None,):
                        if fields[0][0] in ("Chitchat", "state::ClusterState", "state::NodeState", "failure_detector::FailureDetector"):
                            bad.append((g, fields))
    # creation of the own copy writes a whole NodeState via NodeState::new (aggregate), not through a reference
    rep.obligation(not bad, "C16/R16.1/pre-check-effect", "update_self_heartbeat (run before the cluster-id check) can write %s" % bad[:2],
                   where(ush), sample="pre-check effect limited to the own heartbeat")
    for forb in (roles.fd_report_heartbeat["id"], roles.recv_apply["id"], roles.try_set_heartbeat["id"]):
        rep.obligation(forb not in reach, "C16/R16.1/pre-check-reach", "update_self_heartbeat reaches %s" % forb, where(ush))
    for row in pm.rows:
        calls = pm.calls(row, "update_self_heartbeat")
        rep.obligation(len(calls) == 1, "C16/R16.1/self-heartbeat-count", "update_self_heartbeat called %d times per message" % len(calls), where(pm.fn))
    rep.instance(len(rows))


def r16_2(ctx, rep, roles, pm):
    r = rep.rule("R16.2", "BadCluster arm: no effect, no reply")
    rows = pm.by_variant.get("BadCluster", [])
    rep.floor("badcluster-rows", len(rows), 1)
    for row in rows:
        others = [k for k in pm.keep if k != "update_self_heartbeat" and pm.calls(row, k)]
        rep.obligation(not others and pm.ret_variant(row) is None, "C16/R16.2/badcluster-effect",
                       "a BadCluster message triggers %s and is answered with %s" % (others, pm.ret_variant(row)), where(pm.fn),
                       sample="BadCluster -> None, nothing called")
    rep.instance(len(rows))


def r16_3(ctx, rep, roles, pm):
    r = rep.rule("R16.3", "only SYN starts a conversation and it carries the configured cluster id; replies are only produced by "
                          "process_message; the configuration is immutable")
    fx = ctx.fx
    cs = roles.create_syn
    eng = sym.Engine(fx, no_inline={roles.compute_digest["id"], roles.scheduled_for_deletion_nodes["id"]})
    rows = eng.table(cs["id"], arg_terms={1: ("ptr", ("S", "self"), ())})
    for row in rows:
        if row.exit == "backedge":
            continue        # body of a loop (e.g. an exclusion set filled by a for loop)
        t = row.ret
        ok = t is not None and t[0] == "agg" and t[2] == "Syn"
        cid = T.field(t, "cluster_id") if ok else None
        ok = ok and cid is not None and cid[0] == "proj" and cid[2] == CFG_CLUSTER
        rep.obligation(ok, "C16/R16.3/syn-cluster-id", "create_syn_message sends cluster id %s" % (sym.fmt(cid)[:60] if cid else None), where(cs),
                       sample="Syn.cluster_id = self.config.cluster_id")
    MSG = "message::ChitchatMessage"
    decoders = {f["id"] for f in fx.fns.values() if f.get("impl_self") == MSG and f.get("impl_trait") == "serialize::Deserializable"}
    n = 0
    for variant, allowed in (("SynAck", {pm.fn["id"]}), ("Ack", {pm.fn["id"]}), ("BadCluster", {pm.fn["id"]}), ("Syn", {cs["id"]})):
        for s in inv.aggregates(fx, MSG, variant):
            n += 1
            root = fx.root_fn(s.fn)
            rep.obligation(root in allowed or root in decoders, "C16/R16.3/constructor/%s/%s" % (variant, root),
                           "a %s message is constructed in %s" % (variant, s.fn), s.where(), sample="%s constructed in %s" % (variant, root.split("::")[-1]))
    rep.floor("message-constructions", n, 7)
    ws = [s for s in inv.field_writes(fx, "Chitchat", "config") if s.kind in ("assign", "mutborrow", "calldest")]
    ws += [s for s in inv.field_writes(fx, "configuration::ChitchatConfig", "cluster_id") if s.kind in ("assign", "mutborrow", "calldest")]
    ws = [s for s in ws if not fx.root_fn(s.fn).endswith("ChitchatConfig::for_test")]
    rep.obligation(not ws, "C16/R16.3/config-written", "the configuration is written after construction: %s" % ws[:2],
                   ws[0].where() if ws else None, sample="Chitchat.config / cluster_id never written")
    rep.instance(n)
