"""C19 — the gossip server survives transport faults and stops cleanly (DESIGN §3 C19)."""
from ..core import sym, tables as T, orderenum as oe, callgraph, inventory as inv
from ..core.anchors import where, AnchorLost
from ..roles import Roles
from ..models import F

LEVEL = "other"
EXPLANATION = (
    "Error discipline, lock discipline and termination reporting decided on the coroutine bodies (mir_built of the async fns, "
    "awaits inlined): (R19.1) Server::run returns Err only on the path 'select branch 0 (transport.recv) yielded Err' and Ok only "
    "on 'command branch yielded Shutdown or channel closed'; results of handle_message / gossip never reach a return; (R19.2) "
    "UdpSocket::receive_one maps a decode error and a transient io error to Ok(None), other io errors to Err, and recv loops "
    "on None; (R19.3) in every coroutine of the server no await point (Yield) and no call of Socket::send/recv, Server::gossip "
    "or Server::handle_message lies between the first use of a MutexGuard<Chitchat> and its (real, non-moved) drop; (R19.4) "
    "the spawned task sends the exit status through the termination watcher on every returning path, and the watcher maps a "
    "closed channel to the 'panicked' error; (R19.5) panic inventory of the send/gossip path (same discharge table as C09).")
TRUSTED = ["tokio::select! numbers its branches in source order; tokio Mutex/watch semantics",
           "mir_built drops are unelaborated: moved-from locals are tracked so that their drops do not count as releases"]
ASSUMPTIONS = ["that later rounds are not STALLED (scheduler fairness, Interval behaviour, real UDP) is not decided"]

SERVER = "server::Server"
GUARD = "tokio::sync::MutexGuard<'_, Chitchat>"


def coroutine_of(fx, method_id):
    cs = [c for c in fx.children.get(method_id, []) if fx.fns[c].get("coroutine")]
    if len(cs) != 1:
        raise AnchorLost("coroutine:" + method_id, "expected one coroutine body, found %d" % len(cs))
    return fx.fns[cs[0]]


def server_methods(fx):
    out = {}
    for f in fx.fns.values():
        if f.get("impl_self") == SERVER and f["kind"] == "method" and f.get("is_async"):
            out[f["id"].split("::")[-1]] = f
    return out


def table(fx, fid):
    eng = sym.Engine(fx, inline_only=set(getattr(fx, "new_helpers", ())))
    eng.track_moves = True
    eng.own_closures_only = True
    return eng, eng.table(fid)


def run(ctx):
    rep = ctx.report
    fx = ctx.fx
    roles = Roles(fx)
    meths = server_methods(fx)
    for need in ("run", "handle_message", "gossip_multiple", "gossip"):
        if need not in meths:
            if need == "handle_message" and "run" in meths:
                # the per-datagram step may have been inlined into the run loop: process_message is then called from `run` itself
                cgx = callgraph.CallGraph(fx)
                # (directly, or through a private helper the pinned tree does not have — e.g. a free function taking the lock and
                # the socket — which the engine inlines into the loop)
                if any(fx.root_fn(cs.real_caller) == meths["run"]["id"] or fx.root_fn(cs.caller) == meths["run"]["id"]
                       for cs in cgx.callers_of(roles.process_message["id"], raw=True) + cgx.callers_of(roles.process_message["id"])):
                    continue
            raise AnchorLost("server::" + need, "async method of Server not found (have %s)" % sorted(meths))
    r19_1(ctx, rep, meths)
    r19_2(ctx, rep)
    r19_3(ctx, rep, meths)
    r19_4(ctx, rep)
    r19_5(ctx, rep, roles, meths)
    from .. import wrappers
    wrappers.transient_errors(ctx, rep, roles, "C19", "R19.6")
    r19_7(ctx, rep)
    r19_8(ctx, rep, roles, meths)
    r19_9(ctx, rep, roles, meths)
    r19_10(ctx, rep, meths)


def call_names(row):
    return [e[1] for e in row.events if e[0] == "call"]


def r19_1(ctx, rep, meths):
    r = rep.rule("R19.1", "exits of the gossip loop: Err only from a failed transport.recv(); Ok only on Shutdown / closed command channel")
    fx = ctx.fx
    co = coroutine_of(fx, meths["run"]["id"])
    rep.anchor("Server::run", where(co))
    eng, rows = table(fx, co["id"])
    rets = [x for x in rows if x.exit == "return"]
    rep.floor("return-rows", len(rets), 3)
    # branch order of the select!: futures are created in source order
    order = None
    for row in rows:
        names = call_names(row)
        idx = {}
        for i, n in enumerate(names):
            if n.endswith("Socket::recv") and "recv" not in idx:
                idx["recv"] = i
            if n.endswith("Interval::tick") and "tick" not in idx:
                idx["tick"] = i
            if "UnboundedReceiver" in n and n.endswith("::recv") and "cmd" not in idx:
                idx["cmd"] = i
        if len(idx) == 3:
            order = sorted(idx, key=idx.get)
            break
    rep.obligation(order == ["recv", "tick", "cmd"], "C19/R19.1/select-order", "select! branches are %s (the exit rules below assume recv, tick, command)" % order,
                   where(co), sample="select! { recv, tick, command }")
    for row in rets:
        t = row.ret
        branch = None
        inner = []
        for c in row.cond:
            if c[0] == "variant" and c[3] and isinstance(c[2], str) and c[2].startswith("_") and c[2][1:].isdigit():
                branch = c[2]
            if c[0] == "variant" and c[3] and c[2] in ("Err", "Ok", "None", "Some", "Shutdown", "Gossip"):
                inner.append((c[2], c[1]))
        kind = t[2] if t is not None and t[0] == "agg" else "?"
        if kind == "Err":
            ok = branch == "_0" and any(v == "Err" and any(s[0] == "proj" and s[2] == ("v", "_0") for s in T.subterms(x)) for v, x in inner)
            # the returned error is the received one
            payload_ok = any(s[0] == "proj" and s[2] == ("v", "Err") for s in T.subterms(t))
            rep.obligation(ok and payload_ok, "C19/R19.1/err-exit", "the gossip loop returns an error on a path other than 'transport.recv() failed' "
                           "(branch %s, conditions %s)" % (branch, [v for v, _ in inner]), where(co, row.site[1]), sample="Err exit <= recv() returned Err")
        elif kind == "Ok":
            ok = branch == "_2" and any(v in ("None", "Shutdown") and any(s[0] == "proj" and s[2] == ("v", "_2") for s in T.subterms(x)) for v, x in inner)
            rep.obligation(ok, "C19/R19.1/ok-exit", "the gossip loop ends normally on a path other than Shutdown / closed command channel (branch %s, %s)" % (
                branch, [v for v, _ in inner]), where(co, row.site[1]), sample="Ok exit <= Shutdown | channel closed")
        else:
            rep.obligation(False, "C19/R19.1/opaque-exit", "the gossip loop returns %s" % sym.fmt(t)[:80], where(co))
    # shutdown always completes: a row exists for Shutdown and for None
    seen = set()
    for row in rets:
        for c in row.cond:
            if c[0] == "variant" and c[3] and c[2] in ("None", "Shutdown") and any(s[0] == "proj" and s[2] == ("v", "_2") for s in T.subterms(c[1])):
                seen.add(c[2])
    rep.obligation(seen == {"None", "Shutdown"}, "C19/R19.1/shutdown-paths", "exit paths for the command branch: %s" % sorted(seen), where(co),
                   sample="Shutdown and closed channel both end the loop")
    # gossip_multiple: unit result, no early return depending on gossip()
    gm = coroutine_of(fx, meths["gossip_multiple"]["id"])
    rep.obligation(meths["gossip_multiple"].get("output") in ("()", "impl std::future::Future<Output = ()>") or "Output = ()" in meths["gossip_multiple"].get("output", "()"),
                   "C19/R19.1/gossip_multiple-result", "gossip_multiple returns %s" % meths["gossip_multiple"].get("output"), where(gm),
                   sample="gossip_multiple: unit result")
    eng2, rows2 = table(fx, gm["id"])
    for row in rows2:
        if row.exit != "return":
            continue
        names = call_names(row)
        rep.obligation(any(n.endswith("Chitchat::update_nodes_liveness") for n in names), "C19/R19.1/round-cut-short",
                       "a gossip round can return before the liveness update (early exit on a failed send?)", where(gm, row.site[1]),
                       sample="every return of gossip_multiple passes update_nodes_liveness")
    rep.instance(len(rets))


def r19_2(ctx, rep):
    r = rep.rule("R19.2", "transport classification in UdpSocket::receive_one / recv")
    fx = ctx.fx
    ro = [f for f in fx.fns.values() if f.get("impl_self") == "transport::udp::UdpSocket" and f.get("is_async") and "Option<(" in (f.get("output") or "")
          and "ChitchatMessage" in (f.get("output") or "") and f["id"] not in getattr(fx, "new_helpers", ())]
    rv = [f for f in fx.fns.values() if f.get("impl_self") == "transport::udp::UdpSocket" and f.get("impl_trait") == "transport::Socket" and f["id"].endswith("::recv")]
    inlined = False
    if len(ro) != 1:
        # the one-datagram step may have been inlined into `recv`'s loop: "nothing to hand out" is then `continue` (a loop-body
        # path) instead of Ok(None)
        if len(ro) == 0 and len(rv) == 1:
            inlined = True
            co = coroutine_of(fx, rv[0]["id"])
        else:
            raise AnchorLost("receive_one", "UdpSocket method returning Result<Option<(addr, msg)>> not found")
    else:
        co = coroutine_of(fx, ro[0]["id"])
    rep.anchor("receive_one", where(co))
    eng, rows = table(fx, co["id"])
    # the transient-error classifier, by signature (fn(&io::Error) -> bool in transport::udp), not by name
    tcls = [f["id"] for f in fx.fns.values() if f["kind"] == "fn" and f.get("inputs") == ["&std::io::Error"] and f.get("output") == "bool" and f["id"].startswith("transport::udp")]
    seen = set()
    for row in rows:
        if row.exit != "return" and not (inlined and row.exit == "backedge"):
            continue
        t = row.ret
        kind = t[2] if t is not None and t[0] == "agg" else "?"
        if kind == "?" and t is not None and t[0] == "call" and t[1].endswith("::context") and t[2] and t[2][0][0] == "agg":
            kind = t[2][0][2]    # Err(e).context(..) stays an Err
        io_err = transient = dec = None
        polled = False
        for c in row.cond:
            if c[0] == "variant" and c[3] and c[2] in ("Ok", "Err"):
                calls = [s[1] for s in T.subterms(c[1]) if s[0] == "call"]
                if any("deserialize" in n for n in calls):
                    dec = c[2]
                elif any("poll" in n or "recv_from" in n for n in calls):
                    io_err = c[2] == "Err"
            if c[0] == "variant" and c[3] and c[2] == "Pending":
                polled = True
            if c[0] == "truth" and c[1][0] == "call" and c[1][1] in tcls:
                transient = c[2]
            elif c[0] == "truth" and c[1][0] == "un" and c[1][1] == "Not" and c[1][2][0] == "call" and c[1][2][1] in tcls:
                transient = not c[2]
        if inlined and row.exit == "backedge":
            if polled or (io_err is None and dec is None):
                continue          # the await loop of recv_from itself
            kind, inner = "Ok", "None"        # `continue`: nothing handed out, the loop goes on
        else:
            inner = None
            if kind == "Ok":
                p = T.field(t, "0")
                if inlined:
                    inner = "Some" if (p is not None and p[0] == "agg" and p[1] == "<tuple>") else "?"
                else:
                    inner = "Some" if sym.is_some(p) else "None" if sym.is_none(p) else "?"
        cls = (io_err, transient, dec)
        seen.add(cls + (kind, inner))
        if io_err:
            want = ("Ok", "None") if transient else ("Err", None)
        elif dec == "Err":
            want = ("Ok", "None")
        elif dec == "Ok":
            want = ("Ok", "Some")
        else:
            want = None
        rep.obligation(want is not None and (kind, inner) == want, "C19/R19.2/classification",
                       "receive_one returns %s(%s) when io error=%s transient=%s decode=%s" % (kind, inner, io_err, transient, dec), where(co, row.site[1] if isinstance(row.site, tuple) else None),
                       sample="io_err=%s transient=%s decode=%s -> %s(%s)" % (io_err, transient, dec, kind, inner))
    rep.floor("classified-exits", len(seen), 4)
    # recv loops on None
    if rv and not inlined:
        cor = coroutine_of(fx, rv[0]["id"])
        eng2, rows2 = table(fx, cor["id"])
        for row in rows2:
            if row.exit == "return":
                t = row.ret
                kind = t[2] if t is not None and t[0] == "agg" else "?"
                some = any(c[0] == "variant" and c[3] and c[2] == "Some" for c in row.cond)
                errp = any(c[0] == "variant" and c[3] and c[2] in ("Break", "Err") for c in row.cond)
                rep.obligation((kind == "Ok" and some) or (kind == "Err" and errp) or kind == "?", "C19/R19.2/recv-loop", "recv returns %s without a message or an error" % kind,
                               where(cor), sample="recv: returns only a message or a fatal error")
    rep.instance(len(seen))


def r19_3(ctx, rep, meths):
    r = rep.rule("R19.3", "the Chitchat mutex guard is never held across an await point or a transport / gossip call")
    fx = ctx.fx
    n_guards = 0
    for name in ("run", "handle_message", "gossip_multiple", "gossip"):
        if name not in meths:
            continue
        co = coroutine_of(fx, meths[name]["id"])
        eng, rows = table(fx, co["id"])
        worst = None
        for row in rows:
            held = False
            since = None
            for e in row.events:
                if e[0] == "call":
                    nm = e[1]
                    if "MutexGuard" in nm and ("Deref" in nm):
                        if not held:
                            held, since = True, e[3][1]
                            n_guards += 1
                    elif nm.endswith("mem::drop") and e[5] and any("MutexGuard" in a for a in (e[5].get("args") or [])):
                        held = False
                    elif held and (nm.endswith("Socket::send") or nm.endswith("Socket::recv") or nm.endswith("Server::gossip")
                                   or nm.endswith("Server::handle_message") or nm.endswith("Server::gossip_multiple")):
                        worst = worst or "%s is called at line %d while the guard taken at line %d is held" % (nm.split("::")[-1], e[3][1], since)
                elif e[0] == "drop" and "MutexGuard" in e[1] and not e[1].startswith("std::task::Poll") and not e[1].startswith("impl "):
                    if e[4] != ("moved",):
                        held = False
                elif e[0] == "yield" and held:
                    worst = worst or "an await at line %d happens while the guard taken at line %d is held" % (e[1][1], since)
        rep.obligation(worst is None, "C19/R19.3/guard-across-await/%s" % name, "%s: %s" % (name, worst), where(co),
                       sample="%s: guard released before every await / send" % name)
    rep.floor("guard-uses", n_guards, 4)
    rep.instance(n_guards)


def r19_4(ctx, rep):
    r = rep.rule("R19.4", "termination is reported: the spawned task sends the exit status on every returning path; a closed channel "
                          "means 'panicked'")
    fx = ctx.fx
    sp = [f for f in fx.fns.values() if f["kind"] == "fn" and f.get("is_async") and "ChitchatHandle" in (f.get("output") or "")]
    if len(sp) != 1:
        raise AnchorLost("spawn_chitchat", "async fn returning ChitchatHandle not found")
    outer = coroutine_of(fx, sp[0]["id"])
    tasks = [c for c in fx.children.get(outer["id"], []) if fx.fns[c].get("coroutine")]
    if not tasks:
        # the task body may have been extracted into a private async fn that the spawner calls
        cgx = callgraph.CallGraph(fx)
        for h in sorted(getattr(fx, "new_helpers", ())):
            if fx.fns[h].get("is_async") and any(fx.root_fn(cs.real_caller) == fx.root_fn(outer["id"]) for cs in cgx.callers_of(h, raw=True)):
                tasks.append(coroutine_of(fx, h)["id"])
    rep.obligation(len(tasks) == 1, "C19/R19.4/task", "expected one spawned task body, found %d" % len(tasks), where(outer))
    n = 0
    for tid in tasks:
        eng, rows = table(fx, tid)
        for row in rows:
            if row.exit != "return":
                continue
            n += 1
            names = call_names(row)
            ran = [i for i, x in enumerate(names) if x.endswith("Server::run")]
            sent = [i for i, x in enumerate(names) if sym.strip_all_generics(x).endswith("watch::Sender::send")]
            ok = bool(ran) and bool(sent) and sent[-1] > ran[0]
            rep.obligation(ok, "C19/R19.4/status-not-sent", "the server task can finish without publishing its exit status", where(fx.fns[tid], row.site[1]),
                           sample="run().await then termination_watcher_sender.send(Some(status))")
            for e in row.events:
                if e[0] == "call" and sym.strip_all_generics(e[1]).endswith("watch::Sender::send"):
                    v = T.resolve_locals(eng, row.store, e[2][1])
                    rep.obligation(sym.is_some(v), "C19/R19.4/status-value", "the published status is %s" % sym.fmt(v)[:60], where(fx.fns[tid]),
                                   sample="published value is Some(result)")
            # the returned value is run()'s result
    rep.floor("task-return-rows", n, 1)
    # termination_watcher: Err of wait_for -> error
    tw = [f for f in fx.fns.values() if f.get("impl_self") == "server::ChitchatHandle" and "Future" in (f.get("output") or "") and f["kind"] == "method" and not f.get("is_async")]
    found = 0
    for f in tw:
        for c in fx.closures_of(f["id"]):
            if not fx.fns[c].get("coroutine"):
                continue
            eng, rows = table(fx, c)
            for row in rows:
                if row.exit != "return":
                    continue
                res = None
                for cnd in row.cond:
                    if cnd[0] == "variant" and cnd[3] and cnd[2] in ("Ok", "Err") and any(s[0] == "proj" and s[2] == ("v", "Ready") for s in T.subterms(cnd[1])):
                        res = cnd[2]
                if res == "Err":
                    found += 1
                    t = row.ret
                    rep.obligation(t is not None and t[0] == "agg" and t[2] == "Err", "C19/R19.4/closed-channel", "a closed termination channel is reported as %s" % (
                        sym.fmt(t)[:60] if t else None), where(fx.fns[c]), sample="channel closed without status -> Err('panicked')")
    rep.floor("closed-channel-paths", found, 1)
    rep.instance(n + found)


def r19_5(ctx, rep, roles, meths):
    from . import c09
    fx = ctx.fx
    ent = {}
    for name in ("handle_message", "gossip_multiple", "gossip", "run"):
        if name in meths:
            ent["server:" + name] = coroutine_of(fx, meths[name]["id"])["id"]
    base = c09.entries(fx, roles)
    ent.update({k: v for k, v in base.items() if k.startswith("udp:") or k.startswith("encode")})
    extra = {
        ("server::Server", "diverge:panic"): (c09.A, "tokio::select! 'all branches disabled' arm: the three branches have no preconditions"),
        ("server::Server", "diverge:unreachable"): (c09.A, "tokio::select! internal unreachable arm"),
        ("state::NodeState", "call:add"): (c09.A, "deletion instant + configured grace period (local clock, not wire data)"),
        ("transport::channel::ChannelTransport", "call:unwrap"): (c09.A, "in-process simulation transport: poisoned std Mutex only after another panic"),
        ("transport::channel::ChannelTransport", "call:expect"): (c09.A, "in-process simulation transport"),
        ("transport::channel", "call:index"): (c09.A, "in-process simulation transport: re-encodes through the real codec as a self-check"),
        ("transport::channel", "call:unwrap"): (c09.A, "in-process simulation transport self-check"),
        ("transport::channel", "diverge:assert_eq"): (c09.A, "in-process simulation transport self-check (announced length = written length, C08/R08.3)"),
        ("transport::channel", "diverge:assert"): (c09.A, "in-process simulation transport self-check (fully consumed, C08/R08.6)"),
        ("transport::channel::InProcessSocket", "call:unwrap"): (c09.A, "in-process simulation transport"),
        ("transport::utils::SocketWithDelay<D>", "call:from_secs_f64"): (c09.A, "delay-injection wrapper (TransportExt::delay): the delay is sampled from the distribution the test author supplies; a negative / non-finite sample is a misuse of the wrapper, not a transport fault"),
        ("transport::channel::Statistics", "assert:Overflow(Add)"): (c09.A, "in-process simulation transport: u64 running totals of bytes / messages sent locally (not wire integers)"),
    }
    counts = {("failure_detector::FailureDetector", "call:add"): 2, ("transport::channel::ChannelTransport", "call:unwrap"): 8,
              ("transport::channel", "call:unwrap"): 2, ("transport::channel::Statistics", "assert:Overflow(Add)"): 2,
              ("transport::utils::SocketWithDelay<D>", "call:from_secs_f64"): 1}
    c09.r09_inventory(ctx, rep, roles, P="C19", ent=ent, rule_id="R19.5", extra_table=extra, extra_counts=counts)


def _mutborrowed_fields(block):
    """(local, adt, field) for every `&mut place.field` taken in the block, following one re-borrow"""
    out = {}
    for st in block["stmts"]:
        if st.get("k") != "assign" or st["rv"].get("k") != "ref" or not st["rv"].get("mut"):
            continue
        pl = st["rv"]["place"]
        fs = [p for p in pl["proj"] if p.get("k") == "field" and p.get("adt") not in (None, "<closure>")]
        if fs:
            out[st["place"]["local"]] = (fs[-1]["adt"], fs[-1]["name"])
        elif pl["proj"] == [{"k": "deref"}] and pl["local"] in out:
            out[st["place"]["local"]] = out[pl["local"]]
    return out


def r19_7(ctx, rep):
    r = rep.rule("R19.7", "scratch-buffer discipline: a message serialised into a buffer that outlives the call (a field) is preceded, on "
                          "every path, by clearing that buffer in the same call — a failed send must not leave bytes for the next one")
    from ..core import cfg as cfgmod
    fx = ctx.fx
    n = 0
    # private helpers the pinned tree does not have that serialise a whole datagram into the `&mut Vec<u8>` they are given
    # (`fn encode_message(msg, buf: &mut Vec<u8>) -> &[u8]`): calling one with a borrowed field is serialising into that field
    ser_helpers = set()
    for h in getattr(fx, "new_helpers", ()):
        hf = fx.fns[h]
        if len([i for i in hf.get("inputs") or [] if i.replace("'a ", "").replace("'_ ", "") == "&mut std::vec::Vec<u8>"]) != 1:
            continue
        for b in hf.get("blocks") or []:
            t = b.get("term") or {}
            c = cfgmod.term_callee(t) if t.get("k") == "call" else None
            if c and (c[1] or c[0]).endswith("Serializable>::serialize") and (c[1] or c[0]).startswith("<message::ChitchatMessage as "):
                ser_helpers.add(h)
    for f in fx.fns.values():
        blocks = f.get("blocks") or []
        sers, clears = [], []
        for bi, b in enumerate(blocks):
            t = b.get("term") or {}
            if t.get("k") != "call" or b.get("cleanup"):
                continue
            c = cfgmod.term_callee(t)
            if c is None:
                continue
            raw = c[1] or c[0]
            name = sym.strip_all_generics(raw)
            mb = _mutborrowed_fields(b)
            argl = [a["place"]["local"] for a in t.get("args", []) if a.get("k") in ("move", "copy") and not a["place"]["proj"]]
            hit = [mb[l] for l in argl if l in mb]
            if not hit:
                continue
            if (raw.endswith("Serializable>::serialize") and raw.startswith("<message::ChitchatMessage as ")) or raw in ser_helpers:
                sers.append((bi, hit[0]))     # a whole datagram
            elif name.split("::")[-1] in ("clear",) or (name.split("::")[-1] == "truncate"):
                clears.append((bi, hit[0]))
        if not sers:
            continue
        g = cfgmod.CFG(f)
        for bi, fld in sers:
            n += 1
            ok = any(cf == fld and g.dominates(cb, bi) for cb, cf in clears)
            rep.obligation(ok, "C19/R19.7/stale-scratch-buffer/%s.%s" % (fld[0].split("::")[-1], fld[1]),
                           "%s serialises a message into the persistent buffer %s.%s without clearing it first on every path: after a failed send the next datagram "
                           "starts with the previous message" % (f["id"], fld[0], fld[1]), where(f, blocks[bi]["term"]["span"]["line"]),
                           sample="%s: clear(%s) dominates serialize(.., %s)" % (fx.root_fn(f["id"]).split("::")[-1], fld[1], fld[1]))
    # positive control: the UDP send path serialises a message somewhere (into a field or a fresh vector)
    udp_send = [f for f in fx.fns.values() if f["id"].startswith("<transport::udp::UdpSocket as transport::Socket>::send")]
    found = 0
    for f in udp_send:
        for b in f.get("blocks") or []:
            t = b.get("term") or {}
            c = cfgmod.term_callee(t) if t.get("k") == "call" else None
            if c and (("serialize::Serializable" in (c[1] or c[0]) and "::serialize" in (c[1] or c[0])) or (c[1] or c[0]) in ser_helpers):
                found += 1
    rep.obligation(found >= 1, "C19/R19.7/anchor-lost/udp-send", "no serialisation of the outgoing message found in UdpSocket::send", None,
                   sample="UdpSocket::send serialises the message (%d call)" % found)
    rep.count("persistent-scratch-buffers", n)
    rep.instance(n + found)


def r19_8(ctx, rep, roles, meths):
    r = rep.rule("R19.8", "a gossip round always completes: own heartbeat and tombstone GC before the sends, every selected target "
                          "attempted whatever the earlier sends returned, liveness evaluation after the sends — on every returning path")
    fx = ctx.fx
    co = coroutine_of(fx, meths["gossip_multiple"]["id"])
    eng, rows = table(fx, co["id"])
    hb, gc, ev = roles.update_self_heartbeat["id"], roles.chitchat_gc_keys["id"], roles.update_nodes_liveness["id"]
    gossip = meths["gossip"]["id"]
    # the send phase may live in a private async helper introduced by a refactoring (a Server method the pinned tree does not
    # have, that calls gossip): the round then calls the helper where it called gossip, and the target obligations are checked on
    # the helper's own body
    cgx = callgraph.CallGraph(fx)
    helpers = [h for h in getattr(fx, "new_helpers", ()) if fx.fns[h].get("impl_self") == SERVER and fx.fns[h].get("is_async")
               and gossip in cgx.reachable([h])]
    send_ids = {gossip} | set(helpers)
    rets = [x for x in rows if x.exit == "return"]
    backs = [x for x in rows if x.exit == "backedge"]
    others = [x for x in rows if x.exit not in ("return", "backedge")]
    rep.obligation(not others, "C19/R19.8/other-exit", "gossip_multiple has %d paths that neither return nor loop (%s)" % (len(others), sorted({x.exit for x in others})),
                   where(co), sample="no aborting path in a gossip round")
    n = 0
    for row in rets:
        n += 1
        names = [e[1] for e in row.calls()]
        idx = {k: [i for i, x in enumerate(names) if x == k] for k in (hb, gc, ev)}
        sends = [i for i, x in enumerate(names) if x in send_ids]
        once = all(len(idx[k]) == 1 for k in (hb, gc, ev))
        order = once and all(idx[hb][0] < g and idx[gc][0] < g for g in sends) and all(g < idx[ev][0] for g in sends)
        rep.obligation(once and order, "C19/R19.8/round-incomplete", "a returning path of the round calls heartbeat x%d, gc x%d, liveness x%d (order ok=%s)" % (
            len(idx[hb]), len(idx[gc]), len(idx[ev]), order), where(co, row.site[1]), sample="heartbeat, gc < sends < update_nodes_liveness, once each")
        if helpers:
            rep.obligation(any(names[i] in helpers for i in sends), "C19/R19.8/target-skipped", "a returning path of the round does not enter the send phase",
                           where(co, row.site[1]), sample="the send phase (helper) is entered on every returning path")
            # a helper that is handed ONE iterator of targets (`selected.into_iter().chain(dead_opt).chain(seed_opt)`): the iterator
            # must be built from all three results of the selection — the selected peers, the dead pick and the seed pick
            for e in row.calls():
                if e[1] in helpers and len(e[2]) == 2 and (fx.fns[e[1]].get("inputs") or ["", ""])[1].startswith("impl "):
                    arg = T.resolve_locals(eng, row.store, e[2][1])
                    srcs = set()
                    for x in T.subterms(arg):
                        if x[0] == "proj" and x[2][0] == "f" and str(x[2][2]) in ("0", "1", "2"):
                            base = T.resolve_locals(eng, row.store, x[1])
                            if base[0] == "call" and "select_nodes_for_gossip" in base[1]:
                                srcs.add(str(x[2][2]))
                    rep.obligation(srcs == {"0", "1", "2"}, "C19/R19.8/target-skipped",
                                   "the targets handed to the send helper are built from results %s of the selection, not from all three (peers, dead pick, seed pick)" % sorted(srcs),
                                   where(co, row.site[1]), sample="send helper receives peers + dead pick + seed pick")
    # the body that contains the sends
    phase = [(co, rows)]
    if helpers:
        phase = []
        for h in helpers:
            hco = coroutine_of(fx, h)
            phase.append((hco, table(fx, hco["id"])[1]))
    nb = n_ret = 0

    def is_iter_or_await(t):
        while t[0] == "proj":
            t = t[1]
        return t[0] == "call" and (t[1].endswith("::next") or t[1].endswith("::poll") or "lock" in t[1] or "{closure#0}" in t[1])
    for pco, prows in phase:
        for row in prows:
            if row.exit == "return":
                n_ret += 1
                gs = [e for e in row.calls() if e[1] == gossip]
                # the loop over the selected targets ran to exhaustion; each optional target (dead / seed) that was picked is attempted
                is_next = lambda n: n.endswith("Iterator>::next") or sym.strip_all_generics(n) == "std::iter::Iterator::next"     # resolved, or on a generic `impl Iterator`
                exhausted = any(c[0] == "variant" and c[1][0] == "call" and is_next(c[1][1]) and c[2] == "None" and c[3] for c in row.cond)
                picked = [c for c in row.cond if c[0] == "variant" and c[3] and c[2] == "Some" and not is_iter_or_await(c[1])]
                rep.obligation(exhausted and len(gs) == len(picked), "C19/R19.8/target-skipped",
                               "a returning path leaves the target loop early or attempts %d of %d picked optional targets" % (len(gs), len(picked)),
                               where(pco, row.site[1]), sample="loop exhausted; every picked dead / seed target attempted")
            elif row.exit == "backedge":
                g = [e for e in row.calls() if e[1] == gossip]
                # the loop over the selected targets comes after the heartbeat / GC of the round (loops before them build the pools)
                is_next = lambda n: n.endswith("Iterator>::next") or sym.strip_all_generics(n) == "std::iter::Iterator::next"
                in_target_loop = any(c[0] == "variant" and c[1][0] == "call" and is_next(c[1][1]) and c[2] == "Some" and c[3] for c in row.cond) and (
                    helpers or any(e[1] == hb for e in row.calls()))
                if in_target_loop:
                    nb += 1
                    rep.obligation(len(g) == 1, "C19/R19.8/target-loop", "a target-loop iteration makes %d gossip calls" % len(g), where(pco, row.site[1]),
                                   sample="one attempt per selected target, then next target whatever the result")
            else:
                rep.obligation(False, "C19/R19.8/other-exit", "the send phase has a path that neither returns nor loops (%s)" % row.exit, where(pco, row.site[1]))
    # (with a send helper the optional targets are no longer separate paths of the round)
    rep.floor("returning-paths", n + n_ret, 2 if helpers else 4)
    rep.floor("target-loop-paths", nb, 2)
    rep.instance(n + n_ret + nb)


def r19_9(ctx, rep, roles, meths):
    r = rep.rule("R19.9", "answering: handle_message sends exactly the reply process_message produced, to the datagram's source, iff there "
                          "is one; gossip sends exactly the SYN it created, to the chosen address")
    fx = ctx.fx
    pm, syn = roles.process_message["id"], roles.create_syn["id"]
    n = 0
    for meth, producer, dest, optional in (("handle_message", pm, "arg1.from_addr", True), ("gossip", syn, "arg1.addr", False)):
        inlined = meth not in meths
        co = coroutine_of(fx, meths["run" if inlined else meth]["id"])
        eng, rows = table(fx, co["id"])
        for row in rows:
            if inlined:
                # the step lives in the run loop: every path (loop body or exit) that handles a datagram
                if not any(e[1] == producer for e in row.calls()) or any(c[0] == "variant" and c[3] and c[2] == "Pending" for c in row.cond[-1:]):
                    continue
            elif row.exit != "return":
                continue
            n += 1
            prod = [e for e in row.calls() if e[1] == producer]
            sends = [e for e in row.calls() if e[1].endswith("Socket::send")]
            some = None
            for c in row.cond:
                if c[0] == "variant" and c[1][0] == "call" and c[1][1] == producer and c[3]:
                    some = c[2] == "Some"
            want = 1 if (not optional or some) else 0
            ok = len(prod) == 1 and len(sends) == want and (some is not None or not optional)
            detail = "%d producer calls, %d sends (reply present=%s)" % (len(prod), len(sends), some)
            if ok and sends:
                a = [T.resolve_locals(eng, row.store, x) for x in sends[0][2]]
                to, msg = sym.fmt(a[1]), a[2]
                payload = msg
                if optional:   # Some(reply) unwrapped
                    while payload[0] == "proj":
                        payload = payload[1]
                if inlined:
                    # source address and message are the two halves of the same received datagram
                    marg = T.resolve_locals(eng, row.store, prod[0][2][1])
                    rcv_m = [x for x in T.subterms(marg) if x[0] == "call" and ("Socket::recv" in x[1] or "::recv" in x[1] or "poll" in x[1])]
                    rcv_a = [x for x in T.subterms(a[1]) if x[0] == "call" and ("Socket::recv" in x[1] or "::recv" in x[1] or "poll" in x[1])]
                    same = bool(rcv_m) and bool(rcv_a) and rcv_m[0] == rcv_a[0]
                    halves = any(x[0] == "proj" and x[2] == F("<tuple>", "0") for x in T.subterms(a[1])) and any(x[0] == "proj" and x[2] == F("<tuple>", "1") for x in T.subterms(marg))
                    ok = same and halves and payload[0] == "call" and payload[1] == producer and "transport" in sym.fmt(a[0])
                else:
                    ok = to == dest and payload[0] == "call" and payload[1] == producer and "transport" in sym.fmt(a[0])
                detail = "send(to=%s, msg=%s)" % (to[:60], sym.fmt(msg)[:60])
            if ok and meth == "handle_message" and not inlined:
                ok = sym.fmt(T.resolve_locals(eng, row.store, prod[0][2][1])) == "arg1.message"
            rep.obligation(ok, "C19/R19.9/%s" % meth, "%s: %s" % (meth, detail), where(co, row.site[1]),
                           sample="%s: one %s; %s" % (meth, producer.split("::")[-1], "reply sent to the source iff Some" if optional else "SYN sent to the chosen address"))
    # at least: reply present / absent for the answering step, and one sending path of gossip (two when the send result goes
    # through `?` instead of being returned as it is — not a difference in behaviour)
    rep.floor("returning-paths", n, 3 if "handle_message" not in meths else 4)
    rep.instance(n)


def r19_10(ctx, rep, meths):
    r = rep.rule("R19.10", "the command channel is read at one site only — the select arm whose Shutdown / closed outcomes leave the loop "
                           "(R19.1): no second receive can take a Shutdown off the queue and drop it")
    fx = ctx.fx
    from ..core import cfg as cfgmod
    sites = [s for s in inv.field_writes(fx, SERVER, "command_rx") if s.kind in ("mutborrow", "assign", "calldest")]
    run_co = coroutine_of(fx, meths["run"]["id"])
    rep.obligation(len(sites) == 1 and fx.root_fn(sites[0].fn) == fx.root_fn(run_co["id"]), "C19/R19.10/second-receiver",
                   "Server.command_rx is used mutably at %d sites (%s): a receive outside the select arm can swallow a Shutdown request" % (
                       len(sites), ["%s:%s" % (x.fn.split("::")[-2] if "::" in x.fn else x.fn, x.line) for x in sites]),
                   where(run_co, sites[1].line if len(sites) > 1 else None), sample="command_rx: one receive site, in Server::run")
    # that one site is a `recv` (awaited in the select), not a try_recv / poll that could be looped
    kinds = []
    for s in sites:
        f = fx.fns[s.real_fn]
        b = f["blocks"][s.block]
        t = b.get("term") or {}
        c = cfgmod.term_callee(t) if t.get("k") == "call" else None
        kinds.append(sym.strip_all_generics((c[1] or c[0])).split("::")[-1] if c else "?")
    rep.obligation(kinds == ["recv"], "C19/R19.10/receive-kind", "the command channel is read through %s" % kinds, where(run_co),
                   sample="command_rx.recv() in the select arm")
    rep.instance(len(sites))
