"""C08 — wire format: writer / reader / announced-length agreement (DESIGN §3 C08)."""
import itertools, json, os
from ..core import sym, tables as T, orderenum as oe, callgraph, inventory as inv, wire
from ..core.anchors import where, AnchorLost
from ..roles import Roles, DS
from ..models import F

LEVEL = "other"
EXPLANATION = (
    "Sibling agreement of the hand-written codecs, extracted from MIR: (R08.1) for every type with both impls the ordered list of "
    "items written by `serialize` (nested encodes with their source field, tag bytes, raw byte runs) and the ordered list of "
    "items read by `deserialize` (nested decodes and the field each lands in) agree in order, wire type and field; (R08.2) "
    "byte->variant decoders agree with the enum discriminants that the encoders cast, for all six tagged enums, and unknown "
    "tags reach an error exit; (R08.3) the linear form of `serialized_len` equals the multiset of bytes/nested lengths that "
    "`serialize` writes, per variant, including the SOURCE of each nested value; (R08.4) Delta.serialized_len is written only "
    "by Default (1 = lone end tag) and by the builder's finish with the produced/consumed byte count; (R08.5) the two block "
    "thresholds agree wherever a flush can happen; (R08.7) the extracted writer layout equals the reference layout of the "
    "pinned tree (rules/wire_layout.json) — a consistent reordering of writer AND reader (invisible to round-trip tests) "
    "breaks interoperability with other builds and with the documented layout; (R08.8) decoded values and written bytes flow only "
    "through reviewed value-preserving calls (constructors, checked views, container insertion) - a canonicalising or case-folding "
    "conversion on one side of the wire is reported.")
TRUSTED = ["to_le_bytes/from_le_bytes, Ipv4Addr/Ipv6Addr::octets widths", "the reference layout was read off the pinned tree and reviewed by hand"]
ASSUMPTIONS = ["equality of decoded and original messages for all inputs and agreement with an independently written implementation are "
               "not decided (no second implementation to analyse; running one is another technique family)",
               "str lengths above 65,535 are truncated by `as u16` (such a key-value never passes try_add_op)"]

LAYOUT_FILE = os.path.join(os.path.dirname(os.path.dirname(os.path.abspath(__file__))), "wire_layout.json")
NORM = {"str": "std::string::String", "types::KeyValueMutationRef<'_>": "types::KeyValueMutation", "delta::DeltaOpRef<'_>": "delta::DeltaOp"}
FIELD_ALIAS = {"state": "status"}


def norm_ty(t):
    return NORM.get(t, t)


def run(ctx):
    rep = ctx.report
    fx = ctx.fx
    roles = Roles(fx)
    S = wire.impls(fx, wire.SER, "serialize")
    L = wire.impls(fx, wire.SER, "serialized_len")
    D = wire.impls(fx, wire.DES, "deserialize")
    if len(S) < 15 or len(D) < 12:
        raise AnchorLost("codecs", "only %d encoders / %d decoders found" % (len(S), len(D)))
    W = {}
    for ty, f in sorted(S.items()):
        eng, out = wire.writer(fx, f, S, L)
        W[ty] = (f, eng, out)
    r08_1(ctx, rep, S, D, W)
    r08_2(ctx, rep)
    r08_3(ctx, rep, S, L, W)
    r08_4(ctx, rep, roles)
    r08_5(ctx, rep, roles)
    r08_7(ctx, rep, W)
    r08_8(ctx, rep, S, L, D, W)
    # the decoder's grouping of ops into member deltas (a valid delta must decode: duplicate-member guard keyed by the full id)
    from . import c03
    c03.r03_3(ctx, rep, roles)
    ctx.report.rules[-1].id = "R08.9(R03.3)"
    from .. import identity
    identity.check_keys(ctx, rep, "C08", "R08.10", ["builder", "digest"])
    # which op sequences the decoder accepts (a stricter decoder refuses streams the documented layout allows)
    from . import c09
    c09.r09_3(ctx, rep, roles, P="C08")
    ctx.report.rules[-1].id = "R08.11(R09.3)"


def items_of(out, variant, exit_kind="return"):
    lst = out.get((variant, exit_kind)) or []
    # all paths of one variant must write the same sequence
    uniq = []
    for items in lst:
        sig = [(k, t, s) for k, t, s, _ in items]
        if sig not in uniq:
            uniq.append(sig)
    return uniq


def last_name(src):
    s = src.split(".")[-1]
    return FIELD_ALIAS.get(s, s)


def r08_1(ctx, rep, S, D, W):
    r = rep.rule("R08.1", "field order and width agreement between serialize and deserialize")
    fx = ctx.fx
    n = 0
    PAIRS = [("digest::NodeDigest", "digest::NodeDigest"), ("types::ChitchatId", "types::ChitchatId"), ("types::Heartbeat", "types::Heartbeat"),
             ("types::KeyValueMutationRef<'_>", "types::KeyValueMutation"), ("std::net::SocketAddr", "std::net::SocketAddr"),
             ("delta::DeltaOpRef<'_>", "delta::DeltaOp"), ("message::ChitchatMessage", "message::ChitchatMessage")]
    for wt, rt in PAIRS:
        if wt not in W or rt not in D:
            rep.obligation(False, "C08/R08.1/missing/%s" % wt, "codec pair %s / %s not found" % (wt, rt))
            continue
        wf, weng, wout = W[wt]
        reng, rout = wire.reader(fx, D[rt], D)
        variants = sorted({k[0] for k in wout if k[1] == "return"}, key=str)
        for v in variants:
            seqs = items_of(wout, v)
            rep.obligation(len(seqs) == 1, "C08/R08.1/writer-paths/%s/%s" % (wt, v), "%s::%s writes %d different sequences" % (wt, v, len(seqs)), where(wf))
            if not seqs:
                continue
            witems = [it for it in seqs[0] if not (it[0] == "bytes" and "to_le_bytes" in it[2]) and not (it[0] == "ser" and it[1] == "u8" and "tag:" in it[2])]
            # drop the tag byte: handled by R08.2
            wfields = [it for it in witems if it[0] == "ser"]
            cands = [(row, calls, val) for row, calls, val in rout if (val[0] == "agg" and (val[2] == v or v is None)) or (v is None and val[0] != "agg")]
            rep.obligation(bool(cands), "C08/R08.1/reader-variant/%s/%s" % (rt, v), "no decoding path produces %s::%s" % (rt, v), where(D[rt]))
            for row, calls, val in cands[:1]:
                n += 1
                rtypes = [c[0] for c in calls]
                # the tag is decoded as [u8; 1] / u8 first in tagged types
                rfields = [(i, t) for i, t in enumerate(rtypes)]
                if wt == "types::KeyValueMutationRef<'_>" or wt == "delta::DeltaOpRef<'_>" and v == "KeyValue":
                    pass
                wt_seq = [norm_ty(it[1]) for it in wfields]
                # nested KeyValueMutation inside DeltaOp is decoded inline: expand
                if wt == "delta::DeltaOpRef<'_>" and v == "KeyValue" and "types::KeyValueMutationRef<'_>" in W:
                    inner = items_of(W["types::KeyValueMutationRef<'_>"][2], None)
                    wt_seq = [norm_ty(it[1]) for it in (inner[0] if inner else [])]
                    wnames = [last_name(it[2]) for it in (inner[0] if inner else [])]
                else:
                    wnames = [last_name(it[2]) for it in wfields]
                if len(rfields) == len(wt_seq) + 1 and rtypes and rtypes[0] in ("[u8; N]", "u8", "[u8; 1]"):
                    rfields = rfields[1:]      # the tag byte (R08.2)
                rt_seq = [norm_ty(t) for _, t in rfields]
                rep.obligation(wt_seq == rt_seq, "C08/R08.1/order/%s/%s" % (wt, v), "%s::%s writes %s but %s reads %s" % (wt, v, wt_seq, rt, rt_seq),
                               where(wf), sample="%s::%s: %s" % (wt.split("::")[-1], v, " ".join(x.split("::")[-1] for x in wt_seq)))
                # landing: the k-th decoded value lands in the field the k-th written value came from
                if val[0] == "agg":
                    target = val
                    if wt == "delta::DeltaOpRef<'_>" and v == "KeyValue":
                        inner_val = T.field(val, "0")
                        target = inner_val if inner_val is not None and inner_val[0] == "agg" else val
                    land = {}
                    for name, term in target[3]:
                        for idx in wire.decode_index(calls, term):
                            land[idx] = FIELD_ALIAS.get(name, name)
                    exp = {}
                    for (i, _), nm in zip(rfields, wnames):
                        exp[i] = nm.replace("()", "")
                    got = {i: land.get(i) for i in exp}
                    rep.obligation(got == exp, "C08/R08.1/landing/%s/%s" % (wt, v), "%s::%s: written fields %s are decoded into %s" % (wt, v, exp, got),
                                   where(D[rt]), sample="%s::%s: decoded values land in the fields they were written from" % (rt.split("::")[-1], v))
                elif val[0] == "call" and val[1].endswith("SocketAddr::new"):
                    a0 = wire.decode_index(calls, val[2][0])
                    a1 = wire.decode_index(calls, val[2][1])
                    rep.obligation(a0 == [0] and a1 == [1] and [last_name(it[2]) for it in wfields] == ["ip()", "port()"], "C08/R08.1/landing/SocketAddr",
                                   "SocketAddr: written %s, rebuilt from decodes %s/%s" % ([it[2] for it in wfields], a0, a1), where(D[rt]),
                                   sample="SocketAddr::new(decoded ip, decoded port)")
    # primitives: endianness pair
    for ty in ("u16", "u32", "u64"):
        if ty in W and ty in D:
            seqs = items_of(W[ty][2], None)
            w_ok = bool(seqs) and len(seqs[0]) == 1 and "to_le_bytes" in seqs[0][0][2]
            reng, rout = wire.reader(fx, D[ty], D)
            r_ok = bool(rout) and rout[0][2][0] == "call" and rout[0][2][1].endswith("from_le_bytes")
            n += 1
            rep.obligation(w_ok and r_ok, "C08/R08.1/endianness/%s" % ty, "%s is written with %s and read with %s" % (ty, seqs[0][0][2] if seqs else None,
                           sym.fmt(rout[0][2])[:40] if rout else None), where(S[ty]), sample="%s: to_le_bytes / from_le_bytes" % ty)
    # Digest: count then (id, node_digest) pairs, same on both sides
    if "digest::Digest" in W:
        f, eng, out = W["digest::Digest"]
        head = items_of(out, None)
        body = items_of(out, None, "backedge")
        ok = bool(head) and [x[1] for x in head[0]] == ["u16"] and "node_digests.len()" in head[0][0][2]
        okb = bool(body) and [x[1] for x in body[0]][-2:] == ["types::ChitchatId", "digest::NodeDigest"]
        reng = sym.Engine(fx, no_inline={x["id"] for x in D.values() if x["id"] != D["digest::Digest"]["id"]})
        rrows = reng.table(D["digest::Digest"]["id"], arg_terms={1: ("ptr", ("S", "buf"), ())})
        rb = [[wire.self_type_of_callee(e[1]) for e in row.calls() if e[1].endswith("Deserializable>::deserialize")] for row in rrows if row.exit == "backedge"]
        okr = bool(rb) and rb[0][:1] == ["u16"] and rb[0][-2:] == ["types::ChitchatId", "digest::NodeDigest"]
        # the decoded pair is inserted as (id, node_digest)
        ins_ok = False
        for row in rrows:
            for e in row.calls():
                if e[1].endswith("::insert") and len(e[2]) == 3:
                    k, v = T.resolve_locals(reng, row.store, e[2][1]), T.resolve_locals(reng, row.store, e[2][2])
                    ins_ok = any("ChitchatId" in s[1] for s in T.subterms(k) if s[0] == "call") and any("NodeDigest" in s[1] for s in T.subterms(v) if s[0] == "call")
        n += 1
        rep.obligation(ok and okb and okr and ins_ok, "C08/R08.1/digest", "Digest: writer head=%s body=%s reader=%s insert-ok=%s" % (
            head[:1], [x[1] for x in body[0]] if body else None, rb[:1], ins_ok), where(f), sample="Digest: u16 count, then (ChitchatId, NodeDigest)*")
    # String / str: u16 length prefix then exactly that many bytes
    if "str" in W and "std::string::String" in D:
        seqs = items_of(W["str"][2], None)
        w_ok = bool(seqs) and [(x[0], x[1]) for x in seqs[0]] == [("ser", "u16"), ("bytes", "[u8]")] and "len() as u16" in seqs[0][0][2] and "as_bytes" in seqs[0][1][2]
        reng = sym.Engine(fx, no_inline={x["id"] for x in D.values() if x["id"] != D["std::string::String"]["id"]})
        r_ok = False
        for row in reng.table(D["std::string::String"]["id"], arg_terms={1: ("ptr", ("S", "buf"), ())}):
            if row.exit != "return" or row.ret is None or row.ret[0] != "agg" or row.ret[2] != "Ok":
                continue
            decs = [wire.self_type_of_callee(e[1]) for e in row.calls() if e[1].endswith("Deserializable>::deserialize")]
            gets = [e for e in row.calls() if sym.strip_all_generics(e[1]).split("::")[-1] == "get"]
            cons = [e for e in row.calls() if e[1].endswith("::consume")]
            if decs == ["u16"] and len(gets) == 1 and len(cons) == 1:
                g = T.resolve_locals(reng, row.store, gets[0][2][1])
                amt = T.field(g, "end") if g[0] == "agg" else None
                c_amt = T.resolve_locals(reng, row.store, cons[0][2][1])
                from_len = amt is not None and any(x[0] == "call" and "u16 as serialize::Deserializable" in x[1] for x in T.subterms(amt))
                utf8 = any(e[1].endswith("from_utf8") for e in row.calls())
                same = amt == c_amt or (c_amt[0] in ("call", "obs") and any(x[0] == "call" and sym.strip_all_generics(x[1]).split("::")[-1] == "get" for x in T.subterms(c_amt)))
                r_ok = same and from_len and utf8
        n += 1
        rep.obligation(w_ok and r_ok, "C08/R08.1/string", "str is written as %s; String reader consistent=%s" % (seqs[:1], r_ok), where(D["std::string::String"]),
                       sample="String: u16 length, then exactly that many UTF-8 bytes (get(..len), from_utf8, consume(len))")
    # IpAddr: tag byte + 4 / 16 octets
    if "std::net::IpAddr" in W and "std::net::IpAddr" in D:
        wf, weng, wout = W["std::net::IpAddr"]
        reng, rout = wire.reader(fx, D["std::net::IpAddr"], D)
        want = {"V4": ("std::net::Ipv4Addr::octets", "[u8; 4]"), "V6": ("std::net::Ipv6Addr::octets", "[u8; 16]")}
        rtab = {}      # tag constant -> decoded array types after the tag
        for row, calls, val in rout:
            if row.exit != "return" or row.ret is None or row.ret[0] != "agg" or row.ret[2] != "Ok":
                continue
            tags = [c[1][3][2][1] for c in row.cond if c[0] == "truth" and c[2] and c[1][0] == "op" and c[1][1] == "Eq"
                    and c[1][3][0] == "cast" and c[1][3][2][0] == "c"]
            tags += [c[2] for c in row.cond if c[0] == "inteq" and c[3]]       # `match byte { 4 => .., 6 => .. }`
            if len(tags) == 1:
                rtab.setdefault(tags[0], []).append([c[0] for c in calls])
        seen = set()
        for v, (oct_fn, arr) in want.items():
            wseq = items_of(wout, v)
            ok = False
            tag = None
            if len(wseq) == 1 and [x[0] for x in wseq[0]] == ["byte", "bytes"]:
                full = (wout.get((v, "return")) or [[]])[0]
                tagt, octt = full[0][3], full[1][3]
                if tagt[0] == "cast" and tagt[2][0] == "c" and octt[0] == "call" and octt[1] == oct_fn:
                    tag = tagt[2][1]
                    ok = rtab.get(tag) == [["[u8; 1]", arr]]
            if ok:
                seen.add(v)
            n += 1
            rep.obligation(ok, "C08/R08.1/ipaddr/%s" % v, "IpAddr::%s: writer %s, reader for tag %s decodes %s" % (v, wseq[:1], tag, rtab.get(tag)),
                           where(D["std::net::IpAddr"]), sample="IpAddr::%s: tag byte + %s" % (v, arr))
        rep.obligation(len(rtab) == 2, "C08/R08.1/ipaddr/variants", "IpAddr reader accepts tags %s" % sorted(rtab), where(D["std::net::IpAddr"]))
    rep.floor("codec-pairs", n, 19)
    rep.instance(n)


def r08_2(ctx, rep):
    r = rep.rule("R08.2", "tag tables: byte->variant decoders agree with the discriminants the encoders cast; unknown tags are errors")
    fx = ctx.fx
    enums = ["delta::DeltaOpTag", "message::MessageType", "message::ProtocolVersion", "types::DeletionStatusMutation", "serialize::BlockType", "serialize::IpVersion"]
    n = 0
    for en in enums:
        adt = fx.adts.get(en)
        if adt is None:
            rep.obligation(False, "C08/R08.2/enum-missing/%s" % en, "tagged enum %s not found" % en)
            continue
        discr = {v["name"]: v["discr"] for v in adt["variants"]}
        # decoders: functions u8 -> (Option|Result)<en> or Deserializable for en
        decs = [f for f in fx.fns.values() if f["kind"] in ("method", "fn") and en in (f.get("output") or "") and (
            f.get("inputs") in (["u8"],) or (f.get("impl_self") == en and f.get("impl_trait") == "serialize::Deserializable"))]
        rep.obligation(bool(decs), "C08/R08.2/decoder-missing/%s" % en, "no byte decoder for %s" % en)
        for f in decs:
            eng = sym.Engine(fx)
            rows = eng.table(f["id"])
            seen = {}
            err_default = False
            for row in rows:
                if row.exit != "return":
                    continue
                t = row.ret
                ints = [(c[2], c[3]) for c in row.cond if c[0] == "inteq"]
                eqs = [c for c in row.cond if c[0] == "truth" and c[1][0] == "op" and c[1][1] == "Eq" and c[2]]
                var = None
                for s in T.subterms(t):
                    if s[0] == "agg" and s[1] == en:
                        var = s[2]
                byte = None
                for v_, pol in ints:
                    if pol and not isinstance(v_, tuple):
                        byte = v_
                for c in eqs:
                    for side in (c[1][2], c[1][3]):
                        if side[0] == "cast" and side[2][0] in ("dconst", "c"):
                            byte = side[2][1]
                        if side[0] == "c":
                            byte = side[1]
                if var is not None and byte is not None:
                    seen[byte] = var
                if var is None and t is not None and t[0] == "agg" and t[2] in ("None", "Err"):
                    err_default = True
                if var is None and t is not None and t[0] != "agg":
                    err_default = err_default or any(c[0] == "variant" and c[2] == "Break" for c in row.cond)
            n += 1
            want = {d: nm for nm, d in discr.items()}
            rep.obligation(seen == want, "C08/R08.2/decoder/%s/%s" % (en, f["id"].split("::")[-1]), "%s decodes %s, discriminants are %s" % (f["id"], seen, want), where(f),
                           sample="%s: %s" % (en.split("::")[-1], ", ".join("%d->%s" % kv for kv in sorted(want.items()))))
            rep.obligation(err_default, "C08/R08.2/unknown-tag/%s/%s" % (en, f["id"].split("::")[-1]), "%s has no error exit for unknown bytes" % f["id"], where(f),
                           sample="%s: unknown byte -> error" % en.split("::")[-1])
        # encoders: functions en -> u8 must be casts of the discriminant
        encs = [f for f in fx.fns.values() if f["kind"] in ("method", "fn") and f.get("output") == "u8" and f.get("inputs") in ([en], ["&" + en])]
        for f in encs:
            eng = sym.Engine(fx, inline_only=set(getattr(fx, "new_helpers", ())))
            for row in eng.table(f["id"]):
                if row.exit == "return":
                    t = row.ret
                    ok = t[0] == "cast" and t[2][0] in ("discr", "dconst")
                    rep.obligation(ok, "C08/R08.2/encoder/%s/%s" % (en, f["id"].split("::")[-1]), "%s encodes as %s" % (f["id"], sym.fmt(t)[:60]), where(f),
                                   sample="%s -> discriminant as u8" % en.split("::")[-1])
    rep.floor("tag-decoders", n, 6)
    rep.instance(n)


WIDTHS = {"u8": 1, "u16": 2, "u32": 4, "u64": 8}


def bytes_len(it):
    """(constant, symbolic key) of a raw byte run"""
    src = it[2]
    term = it[3]
    calls = [s for s in T.subterms(term) if s[0] == "call"]
    for c in calls:
        if c[1].endswith("to_le_bytes"):
            for w, nb in WIDTHS.items():
                if "impl %s>" % w in c[1]:
                    return nb, None
        if c[1].endswith("octets"):
            return (4 if "Ipv4Addr" in c[1] else 16), None
        if c[1].endswith("as_bytes"):
            return 0, ("len", src.replace(".as_bytes()", ""))
    if "index(RangeFull" in src:
        return 0, ("N", "self")
    return 0, ("len", src)


def flatten_sum(t):
    """linear form: (constant, [atoms])"""
    if t[0] == "c":
        return t[1], []
    if t[0] == "op" and t[1] == "Add":
        c1, a1 = flatten_sum(t[2])
        c2, a2 = flatten_sum(t[3])
        return c1 + c2, a1 + a2
    if t[0] == "cast":
        return flatten_sum(t[2])
    return 0, [t]


def r08_3(ctx, rep, S, L, W):
    r = rep.rule("R08.3", "announced length = bytes written (per variant, including the source of every nested value)")
    fx = ctx.fx
    n = 0
    skip = {"delta::Delta", "[u8; N]"}
    for ty in sorted(S):
        if ty in skip or ty not in L:
            continue
        wf, weng, wout = W[ty]
        lf = L[ty]
        leng = sym.Engine(fx, no_inline={x["id"] for x in L.values() if x["id"] != lf["id"]})
        lrows = leng.table(lf["id"], arg_terms={1: ("ptr", ("S", "self"), ())})
        by_var = {}
        for row in lrows:
            if row.exit in ("return",):
                by_var.setdefault(wire.variant_of_row(row), []).append(row)
        variants = sorted({k[0] for k in wout if k[1] == "return"}, key=str)
        for v in variants:
            seqs = items_of(wout, v)
            if not seqs:
                continue
            raw = [items for items in wout[(v, "return")]][0]
            const = 0
            want_atoms = []
            for it in raw:
                if it[0] == "byte":
                    const += 1
                elif it[0] == "bytes":
                    c_, a_ = bytes_len(it)
                    const += c_
                    if a_:
                        want_atoms.append(a_)
                else:
                    if it[1] in WIDTHS:
                        const += WIDTHS[it[1]]
                    elif it[1] == "[u8; N]" and "to_le_bytes" in it[2] and ty in WIDTHS:
                        const += WIDTHS[ty]
                    else:
                        want_atoms.append((it[1], it[2]))
            rows_v = by_var.get(v) or by_var.get(None) or []
            if ty == "digest::Digest":
                # loop: compare per-iteration contributions
                wb = items_of(wout, None, "backedge")
                lb = [row for row in lrows if row.exit == "backedge"]
                okd = bool(wb) and bool(lb)
                if okd:
                    witer = sorted(norm_ty(x[1]) for x in wb[0][1:])
                    liter = sorted(norm_ty(wire.self_type_of_callee(e[1]) or "?") for e in lb[0].calls() if e[1].endswith("serialized_len") and e[1] != lf["id"])
                    liter = [x for x in liter if x != "u16"]
                    okd = witer == liter
                n += 1
                rep.obligation(okd, "C08/R08.3/len/%s" % ty, "Digest: per-entry bytes written %s vs lengths added %s" % (wb[0][1:] if wb else None, liter if lb else None),
                               where(lf), sample="Digest: 2 + sum(len(id) + len(node_digest))")
                continue
            rep.obligation(bool(rows_v), "C08/R08.3/len-variant/%s/%s" % (ty, v), "serialized_len has no path for %s::%s" % (ty, v), where(lf))
            for row in rows_v[:1]:
                n += 1
                c_l, atoms_l = flatten_sum(row.ret)
                got_atoms = []
                for a in atoms_l:
                    if a[0] == "call" and a[1].endswith("serialized_len"):
                        t_ = wire.self_type_of_callee(a[1]) or "?"
                        src = wire.describe(leng, row, a[2][0])
                        if t_ in WIDTHS:
                            c_l += WIDTHS[t_]
                        else:
                            got_atoms.append((t_, src))
                    elif a[0] == "call" and a[1].endswith("::len"):
                        got_atoms.append(("len", wire.describe(leng, row, a).replace(".len()", "")))
                    elif a[0] == "const" or (a[0] == "obj"):
                        got_atoms.append(("N", "self") if "N" in str(a) else ("?", sym.fmt(a)[:30]))
                    else:
                        got_atoms.append(("?", sym.fmt(a)[:40]))
                ok = c_l == const and sorted(map(str, got_atoms)) == sorted(map(str, want_atoms))
                rep.obligation(ok, "C08/R08.3/len/%s/%s" % (ty, v), "%s::%s writes %d bytes + %s but announces %d + %s" % (
                    ty, v, const, sorted(want_atoms), c_l, sorted(got_atoms)), where(lf), sample="%s::%s: %d + %s" % (ty.split("::")[-1], v, const, [a[1] for a in want_atoms]))
    rep.floor("length-forms", n, 14)
    rep.instance(n)


def r08_4(ctx, rep, roles):
    r = rep.rule("R08.4", "Delta.serialized_len provenance")
    fx = ctx.fx
    n = 0
    for s in inv.field_writes(fx, "delta::Delta", "serialized_len"):
        n += 1
        root = fx.root_fn(s.fn)
        rep.obligation(root == roles.builder_finish["id"], "C08/R08.4/writer/%s" % root, "Delta.serialized_len is written in %s" % s.fn, s.where(),
                       sample="serialized_len written by DeltaBuilder::finish")
    for s in inv.aggregates(fx, "delta::Delta"):
        n += 1
        sl = dict(zip(s.rv["fields"], s.rv["ops"])).get("serialized_len")
        ok = sl is not None and sl["k"] == "const" and sl.get("val") == 1
        rep.obligation(ok, "C08/R08.4/default", "a Delta literal in %s announces %s bytes (an empty stream is the lone end tag = 1)" % (s.fn, sl), s.where(),
                       sample="Delta::default: serialized_len = 1")
    # arguments of finish
    cg = callgraph.CallGraph(fx)
    for cs in cg.callers_of(roles.builder_finish["id"]):
        n += 1
        eng = sym.Engine(fx, no_inline={roles.builder_finish["id"]}, inline_only=set(getattr(fx, "new_helpers", ())))
        okc = False
        desc = None
        for row in eng.table(cs.real_caller):
            for e in row.calls():
                if e[1] == roles.builder_finish["id"]:
                    a = T.resolve_locals(eng, row.store, e[2][1])
                    desc = sym.fmt(a)[:80]
                    if cs.caller == roles.ser_finish["id"]:
                        okc = a[0] == "call" and a[1].endswith("::len") and any(x[0] == "call" and x[1].endswith("CompressedStreamWriter::finish") for x in T.subterms(a))
                    else:
                        okc = a[0] == "op" and a[1] == "Sub" and all(any(x[0] == "call" and x[1].endswith("::len") for x in T.subterms(y)) or y[0] in ("call", "loopvar") for y in (a[2], a[3]))
        rep.obligation(okc, "C08/R08.4/finish-arg/%s" % cs.caller, "DeltaBuilder::finish is given %s in %s" % (desc, cs.caller), where(fx.fns[cs.caller], cs.line),
                       sample="%s: finish(%s)" % (cs.caller.split("::")[-2], "payload.len()" if cs.caller == roles.ser_finish["id"] else "original_len - remaining"))
    rep.floor("provenance-sites", n, 4)
    rep.instance(n)


def r08_5(ctx, rep, roles):
    r = rep.rule("R08.5", "block thresholds of DeltaSerializer and Delta::serialize agree wherever a flush can happen")
    fx = ctx.fx
    CSW = "serialize::CompressedStreamWriter"
    wbt = [f for f in fx.fns.values() if f.get("impl_self") == CSW and f.get("inputs") == ["u16"]]
    if len(wbt) != 1:
        raise AnchorLost("with_block_threshold", "not found")
    wbt = wbt[0]
    # T2: constant in Delta::serialize
    ds = [f for f in fx.fns.values() if f.get("impl_self") == "delta::Delta" and f.get("impl_trait") == "serialize::Serializable" and f["id"].endswith("::serialize")][0]
    eng = sym.Engine(fx, no_inline={wbt["id"]}, inline_only=set(getattr(fx, "new_helpers", ())))
    t2 = None
    for row in eng.table(ds["id"]):
        for e in row.calls():
            if e[1] == wbt["id"]:
                t2 = e[2][0]
    eng1 = sym.Engine(fx, no_inline={wbt["id"]})
    t1 = None
    for row in eng1.table(roles.ser_new["id"], arg_terms={1: ("obj", ("S", "mtu"))}):
        for e in row.calls():
            if e[1] == wbt["id"] and row.exit == "return":
                t1 = T.resolve_locals(eng1, row.store, e[2][0])
    ok = t2 is not None and t2[0] == "c" and t1 is not None
    bad = None
    n = 0
    if ok:
        T2 = t2[1]
        for mtu in (100, 1000, T2 - 1, T2, T2 + 1, 65507):
            n += 1
            # evaluate T1(mtu); unwrap(try_from(x)) is the identity on values that fit
            def f(x):
                if x[0] == "call" and (x[1].endswith("::unwrap") or x[1].endswith("try_from") or x[1].endswith("::expect")):
                    return T.rewrite(x[2][0], f)
                if x[0] == "proj" and x[1][0] == "call" and x[1][1].endswith("try_from"):
                    return T.rewrite(x[1][2][0], f)
                return None
            tt = T.rewrite(t1, f)
            while tt[0] == "proj":
                tt = tt[1]
            try:
                v1 = oe.ev(T.rewrite(tt, f), {("obj", ("S", "mtu")): mtu})
            except oe.NeedAtom as e:
                bad = bad or "threshold of DeltaSerializer not evaluable: %s" % sym.fmt(e.atom)[:80]
                break
            if not (v1 == T2 or v1 >= mtu):
                bad = bad or "mtu=%d: DeltaSerializer flushes at %s, Delta::serialize at %d" % (mtu, v1, T2)
    rep.obligation(ok and bad is None, "C08/R08.5/thresholds", "block thresholds: %s (T1=%s, T2=%s)" % (bad, sym.fmt(t1)[:60] if t1 else None, sym.fmt(t2) if t2 else None),
                   where(ds), evaluations=n, sample="for mtu in {100,..,65507}: T1(mtu) == T2 or T1(mtu) >= mtu")
    rep.instance(n)


def layout_of(W):
    out = {}
    for ty, (f, eng, wout) in sorted(W.items()):
        if ty in ("delta::Delta",):
            continue
        for (v, ex), lst in sorted(wout.items(), key=str):
            seqs = []
            for items in lst:
                sig = [[k, t, s] for k, t, s, _ in items]
                if sig not in seqs:
                    seqs.append(sig)
            if ex == "backedge" and ty != "digest::Digest":
                continue
            out["%s|%s|%s" % (ty, v, ex)] = seqs[0] if seqs else []
    return out


def r08_7(ctx, rep, W):
    r = rep.rule("R08.7", "the writer layout equals the reference wire layout of the pinned tree")
    got = layout_of(W)
    if not os.path.exists(LAYOUT_FILE):
        rep.violation("C08/R08.7/reference-missing", "rules/wire_layout.json is missing")
        return
    ref = json.load(open(LAYOUT_FILE))["layout"]
    n = 0
    for key, want in sorted(ref.items()):
        n += 1
        have = got.get(key)
        rep.obligation(have == want, "C08/R08.7/layout/%s" % key.replace("|", "/"), "wire layout of %s changed: %s (reference %s)" % (key, have, want), None,
                       sample="%s: %s" % (key.split("|")[0].split("::")[-1] + ("::" + key.split("|")[1] if key.split("|")[1] != "None" else ""),
                                          " ".join("%s(%s)" % (t.split("::")[-1], s) for _, t, s in want)[:120]))
    for key in sorted(set(got) - set(ref)):
        rep.obligation(False, "C08/R08.7/unreferenced/%s" % key.replace("|", "/"), "a new encoder / variant %s has no reference layout" % key, None)
    rep.floor("layouts", n, 25)
    rep.instance(n)


# calls through which a decoded item may flow into the decoded value / a field may flow into the written bytes: each keeps the
# value (constructor, container insertion, checked conversion) — reviewed by reading; anything else is an unreviewed transformation
READ_OK = {
    "deserialize": "nested decode", "from_le_bytes": "fixed-width integer decode (endianness is R08.1)", "new": "SocketAddr::new / Vec::new constructor",
    "to_string": "str -> String copy", "from_utf8": "checked view of the same bytes", "get": "checked sub-slice", "with_context": "error decoration of an Option",
    "try_into": "slice -> array of the same bytes", "index": "sub-slice", "push": "container insertion", "default": "empty container", "len": "observer",
    "insert": "container insertion", "from": "From between address types / error conversion", "into": "Into between address types",
    "context": "error decoration", "ok_or_else": "Option -> Result", "map_err": "error conversion", "try_from": "tag byte -> enum (R08.2)",
    "to_owned": "copy", "clone": "copy", "to_vec": "copy", "from_utf8_lossy": None}
WRITE_OK = {
    "serialize": "nested encode", "index": "sub-slice", "extend": "byte append", "extend_from_slice": "byte append", "with_capacity": "buffer constructor", "next": "iteration",
    "to_le_bytes": "fixed-width integer encode", "octets": "address bytes", "as_str": "view", "as_bytes": "view", "len": "length prefix",
    "ip": "SocketAddr accessor", "port": "SocketAddr accessor", "iter": "iteration", "as_ref": "view", "as_slice": "view"}


def _short(name):
    n = name[6:] if name.startswith("havoc:") else name
    n = n[5:] if n.startswith("fold:") else n
    return sym.strip_all_generics(n).split("::")[-1]


def r08_8(ctx, rep, S, L, D, W):
    r = rep.rule("R08.8", "decoded values and written bytes flow only through reviewed value-preserving calls")
    fx = ctx.fx
    n = 0
    for ty, f in sorted(D.items()):
        reng = sym.Engine(fx, no_inline={x["id"] for x in D.values() if x["id"] != f["id"]})
        bad = set()
        rows = 0
        for row in reng.table(f["id"], arg_terms={1: ("ptr", ("S", "buf"), ())}):
            if row.exit != "return" or row.ret is None or (row.ret[0] == "agg" and row.ret[2] != "Ok"):
                continue
            rows += 1
            v = T.resolve_locals(reng, row.store, row.ret)
            for x in T.subterms(v):
                if x[0] == "call" and READ_OK.get(_short(x[1])) is None:
                    bad.add(x[1])
        n += 1
        rep.obligation(not bad and rows > 0, "C08/R08.8/read/%s" % ty, "the value decoded for %s passes through %s (not a reviewed value-preserving call; %d Ok paths)" % (ty, sorted(bad), rows),
                       where(f), sample="%s: Ok value built from decoded items only" % ty)
    for ty, (f, eng, out) in sorted(W.items()):
        bad = set()
        for k, lst in out.items():
            for items in lst:
                for it in items:
                    for x in T.subterms(it[3]):
                        if x[0] == "call" and _short(x[1]) not in WRITE_OK:
                            bad.add(x[1])
        n += 1
        rep.obligation(not bad, "C08/R08.8/write/%s" % ty, "bytes written for %s are computed through %s (not a reviewed value-preserving call)" % (ty, sorted(bad)),
                       where(f), sample="%s: written bytes derive from the fields directly" % ty)
    rep.floor("codecs", n, 38)
    rep.instance(n)
