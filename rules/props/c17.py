"""C17 — peer selection (DESIGN §3 C17)."""
import itertools
from fractions import Fraction as Fr
from ..core import sym, tables as T, orderenum as oe, callgraph
from ..core.anchors import where, AnchorLost
from ..core import anchors as A
from ..roles import Roles
from ..models import F

LEVEL = "other"
EXPLANATION = (
    "Decision table of select_nodes_for_gossip (helpers inlined) extracted from MIR and evaluated exhaustively for set sizes "
    "0..6 of live/dead/seed peers, random values {0, 1/2, ~1} for both draws and both outcomes of 'a sampled peer is a seed': "
    "(i) sample source is the live set, or all known peers when no peer is live, sample size is the constant 3; (ii) when no "
    "peer is live and a seed exists and no sampled peer is a seed, a seed is picked; (iii) when dead peers outnumber live "
    "ones a dead peer is picked; (iv) the dead pick draws from the dead set, the seed pick from the seed set, at most one "
    "each. (R17.1) the four pools handed to the selection come from cluster_state.nodes(), live_nodes(), dead_nodes(), "
    "seed_nodes(), with the own id / own address filtered out, positionally.")
TRUSTED = ["rand: IteratorRandom::sample(n) yields at most n distinct items; choose yields Some iff the set is non-empty",
           "IEEE semantics of x/0 (inf / NaN, comparisons with NaN false) as modelled"]
ASSUMPTIONS = ["uniformity of rand's sample/choose is not analysed"]

HASHSET = "std::collections::HashSet<std::net::SocketAddr>"


class NaN:
    pass


def fdiv(a, b):
    if b == 0:
        if a == 0:
            return None  # NaN
        return Fr(10 ** 9)  # +inf
    return Fr(a) / Fr(b)


def run(ctx):
    rep = ctx.report
    fx = ctx.fx
    roles = Roles(fx)
    sel = A.method(fx, "select", None, [None, HASHSET, HASHSET, HASHSET, HASHSET],
                   "(std::vec::Vec<std::net::SocketAddr>, std::option::Option<std::net::SocketAddr>, std::option::Option<std::net::SocketAddr>)", kind=("fn",))
    r17_2(ctx, rep, sel)
    r17_1(ctx, rep, roles, sel)
    from .. import wrappers
    wrappers.accessors(ctx, rep, roles, "C17", "R17.3")
    wrappers.seeds(ctx, rep, roles, "C17", "R17.4")
    # "a seed is always contacted" needs every selected target to be attempted whatever the earlier sends returned (seed R3-C17-2)
    from . import c19
    c19.r19_8(ctx, rep, roles, c19.server_methods(fx))
    ctx.report.rules[-1].id = "R17.5(R19.8)"


def r17_2(ctx, rep, sel):
    r = rep.rule("R17.2", "selection formulas evaluated exhaustively (sizes 0..6, extreme/mid random values)")
    fx = ctx.fx
    rep.anchor("select", where(sel))
    eng = sym.Engine(fx)
    PEERS, LIVE, DEAD, SEEDS = (("obj", ("S", n)) for n in ("peers", "live", "dead", "seeds"))
    rows = eng.table(sel["id"], arg_terms={1: ("ptr", ("S", "rng"), ()), 2: PEERS, 3: LIVE, 4: DEAD, 5: SEEDS})
    ret = [x for x in rows if x.exit == "return"]
    back = [x for x in rows if x.exit == "backedge"]
    rep.floor("return-rows", len(ret), 8)

    def classify(t):
        """atoms -> roles"""
        if t[0] == "call":
            nm = sym.strip_all_generics(t[1]).split("::")[-1]
            if nm == "len" and t[2]:
                for name, obj in (("live", LIVE), ("dead", DEAD), ("seeds", SEEDS), ("peers", PEERS)):
                    if t[2][0] == obj:
                        return T.R("n_" + name)
            if nm == "random":
                return T.R("rnd%d" % t[3]) if t[3] is not None else None
            if nm == "contains" and t[2] and t[2][0] == SEEDS:
                return T.R("sampled_is_seed")
            if t[1] == "fused:any" and len(t[2]) == 2 and t[2][1][0] == "call" and sym.strip_all_generics(t[2][1][1]).split("::")[-1] == "contains" \
                    and t[2][1][2] and T.resolve_locals(eng, {}, t[2][1][2][0]) in (SEEDS, ("ptr", ("S", "seeds"), ())):
                return T.R("sampled_is_seed")        # nodes.iter().any(|id| seeds.contains(id))
        return None
    # discover the random draws used
    atoms = []
    for row in ret:
        for c in row.cond:
            oe.cond_atoms(T.rewrite_cond((c[0], T.resolve_locals(eng, row.store, c[1])) + tuple(c[2:]), classify), atoms)
    rnds = sorted({a for a in atoms if a[0] == "obj" and a[1][0] == "R" and str(a[1][1]).startswith("rnd")}, key=str)
    rep.obligation(len(rnds) == 2, "C17/R17.2/random-draws", "the selection uses %d random draws in its conditions (expected one for the dead pick "
                   "and one for the seed pick)" % len(rnds), where(sel))
    if len(rnds) != 2:
        return
    # which draw guards which pick: determined from the rows
    def res(c, row):
        return (c[0], T.resolve_locals(eng, row.store, c[1])) + tuple(c[2:])
    conds = [[T.rewrite_cond(res(c, row), classify) for c in row.cond] for row in ret]
    n = 0
    bad = {}
    RV = (Fr(0), Fr(1, 2), Fr(999999, 1000000))
    for live, dead, seeds in itertools.product(range(0, 7), repeat=3):
        for r1, r2 in itertools.product(RV, repeat=2):
            for has_seed in (False, True):
                for sample_empty in ((True, False) if True else (False,)):
                    asg = {T.R("n_live"): live, T.R("n_dead"): dead, T.R("n_seeds"): seeds, rnds[0]: r1, rnds[1]: r2}
                    matched = []
                    for row, cs in zip(ret, conds):
                        ok = True
                        for c in cs:
                            try:
                                if c[0] == "variant":
                                    # iterator over the sample / choose outcomes
                                    tt = c[1]
                                    if tt[0] == "call" and tt[1].endswith("::choose"):
                                        src = tt[2][0]
                                        size = dead if any(s == DEAD for s in T.subterms(src)) else seeds if any(s == SEEDS for s in T.subterms(src)) else None
                                        if size is None:
                                            ok = False
                                            break
                                        val = "Some" if size > 0 else "None"
                                        if (c[2] == val) != c[3]:
                                            ok = False
                                            break
                                    elif tt[0] == "call" and tt[1].endswith("::next"):
                                        # end of the 'has a sampled seed' scan
                                        want = "None" if not has_seed else "Some"
                                        if (c[2] == want) != c[3]:
                                            ok = False
                                            break
                                    continue
                                if c[0] == "truth" and c[1] == T.R("sampled_is_seed"):
                                    if c[2] != has_seed:
                                        ok = False
                                        break
                                    continue
                                if not holds_ieee(c, asg):
                                    ok = False
                                    break
                            except oe.NeedAtom as e:
                                bad.setdefault("unknown-input", "selection depends on %s" % sym.fmt(e.atom)[:80])
                                ok = False
                                break
                        if ok:
                            matched.append(row)
                    n += 1
                    if not matched:
                        bad.setdefault("no-path", "no path of the selection matches live=%d dead=%d seeds=%d rnd=(%s,%s) sampled-seed=%s" % (
                            live, dead, seeds, r1, r2, has_seed))
                        continue
                    for row in matched:
                        t = row.ret
                        nodes, dpick, spick = (T.resolve_locals(eng, row.store, T.field(t, str(i))) for i in range(3))
                        # (i) sample source / size
                        srcs = [s for s in T.subterms(nodes) if s in (PEERS, LIVE, DEAD, SEEDS)]
                        want_src = PEERS if live == 0 else LIVE
                        if srcs != [want_src]:
                            bad.setdefault("sample-source", "live=%d: peers sampled from %s" % (live, [sym.fmt(s) for s in srcs]))
                        cnt = [a for a in (nodes[2] if nodes[0] == "call" else ()) if a[0] == "c"]
                        if not (nodes[0] == "call" and nodes[1].endswith("::sample") and cnt and cnt[0][1] == 3):
                            bad.setdefault("sample-size", "sample is %s" % sym.fmt(nodes)[:80])
                        # (iv) picks draw from their own sets
                        for pick, pool, nm in ((dpick, DEAD, "dead"), (spick, SEEDS, "seed")):
                            if sym.is_some(pick):
                                if not any(s == pool for s in T.subterms(pick)) or any(s in (PEERS, LIVE, DEAD, SEEDS) and s != pool for s in T.subterms(pick)):
                                    bad.setdefault(nm + "-pick-pool", "%s pick is %s" % (nm, sym.fmt(pick)[:80]))
                        # (iii) dead > live => dead pick
                        if dead > live and not sym.is_some(dpick):
                            bad.setdefault("dead-pick-missing", "live=%d dead=%d rnd=%s: no dead peer contacted" % (live, dead, r1))
                        if dead == 0 and sym.is_some(dpick):
                            bad.setdefault("dead-pick-empty", "dead pick from an empty set")
                        # (ii) isolated => seed
                        if live == 0 and seeds > 0 and not has_seed and not sym.is_some(spick):
                            bad.setdefault("seed-pick-missing", "live=0 seeds=%d dead=%d rnd=%s: no seed contacted" % (seeds, dead, r2))
    for k, v in sorted(bad.items()):
        rep.obligation(False, "C17/R17.2/" + k, v, where(sel), evaluations=n)
    if not bad:
        rep.obligation(True, "", "", evaluations=n, sample="%d combinations of (live, dead, seeds, rnd1, rnd2, sampled-seed): sample source/size, "
                                                          "dead pick when dead > live, seed pick when isolated, pools respected" % n)
    rep.count("combinations", n)
    rep.instance(len(ret))


def holds_ieee(c, asg):
    """evaluate a condition with float division by zero handled as IEEE (inf / NaN)"""
    def ev(t):
        k = t[0]
        if k == "op" and t[1] == "Div":
            a, b = ev(t[2]), ev(t[3])
            if a is None or b is None:
                return None
            return fdiv(a, b)
        if k == "op" and t[1] in sym.CMP:
            a, b = ev(t[2]), ev(t[3])
            if a is None or b is None:
                return False if t[1] != "Ne" else True
            return sym.concrete_binop(t[1], a, b)
        if k == "op":
            a, b = ev(t[2]), ev(t[3])
            if a is None or b is None:
                return None
            return sym.concrete_binop(t[1], a, b)
        if k == "cast":
            v = ev(t[2])
            return Fr(v) if v is not None and t[1] in ("f64", "f32") else v
        if k == "un" and t[1] == "Not":
            return not ev(t[2])
        return oe.ev(t, asg)
    if c[0] == "truth":
        return bool(ev(c[1])) == c[2]
    return oe.holds(c, asg)


def r17_1(ctx, rep, roles, sel):
    r = rep.rule("R17.1", "pools: peers from cluster_state.nodes(), live from live_nodes(), dead from dead_nodes(), seeds from "
                          "seed_nodes(); own id / own address filtered; positional")
    fx = ctx.fx
    cg = callgraph.CallGraph(fx)
    callers = cg.callers_of(sel["id"])
    rep.floor("selection-call-sites", len(callers), 1)
    for cs in callers:
        eng = sym.Engine(fx, inline_only=set(getattr(fx, "new_helpers", ())))
        rows = eng.table(cs.real_caller)
        done = False
        for row in rows:
            for e in row.calls():
                if e[1] != sel["id"] or done:
                    continue
                done = True
                want = [("ClusterState::nodes", True), ("Chitchat::live_nodes", True), ("Chitchat::dead_nodes", False), ("Chitchat::seed_nodes", True)]
                for i, (src, filtered) in enumerate(want):
                    a = T.resolve_locals(eng, row.store, e[2][i + 1])
                    calls = [s[1] for s in T.subterms(a) if s[0] == "call"]
                    if not (calls and calls[0].endswith("::collect")):
                        # a pool filled by a for loop: `let mut pool = HashSet::new(); for id in <source> { if id != self { pool.insert(..) } }`
                        okl, okfl = loop_built_pool(fx, eng, rows, a, src, [w for w, _ in want if w != src], filtered, address=(src == "Chitchat::seed_nodes"))
                        rep.obligation(okl, "C17/R17.1/pool/%d" % (i + 1), "selection argument %d is %s" % (i + 1, sym.fmt(a)[:100]),
                                       where(fx.fns[cs.caller], e[3][1]), sample="arg %d <- %s" % (i + 1, src))
                        if filtered:
                            rep.obligation(okfl, "C17/R17.1/self-filter/%d" % (i + 1), "pool %d (%s) does not exclude the node itself" % (i + 1, src),
                                           where(fx.fns[cs.caller], e[3][1]), sample="%s filtered by != self" % src)
                        continue
                    ok = any(c.endswith(src) for c in calls) and calls and calls[0].endswith("::collect")
                    others = [w for w, _ in want if w != src and any(c.endswith(w) for c in calls)]
                    rep.obligation(ok and not others, "C17/R17.1/pool/%d" % (i + 1), "selection argument %d is %s" % (i + 1, sym.fmt(a)[:100]),
                                   where(fx.fns[cs.caller], e[3][1]), sample="arg %d <- %s" % (i + 1, src))
                    if filtered:
                        fl = [s for s in T.subterms(a) if s[0] == "call" and s[1].endswith("::filter")]
                        okf = False
                        for f_ in fl:
                            for cl in f_[2]:
                                if cl[0] == "closure":
                                    okf = okf or closure_excludes_self(fx, eng, row, cl, address=(src == "Chitchat::seed_nodes"))
                        rep.obligation(okf, "C17/R17.1/self-filter/%d" % (i + 1), "pool %d (%s) does not exclude the node itself" % (i + 1, src),
                                       where(fx.fns[cs.caller], e[3][1]), sample="%s filtered by != self" % src)
        rep.obligation(done, "C17/R17.1/call-not-found", "selection call not found on any path of %s" % cs.caller, where(fx.fns[cs.caller]))
    rep.instance(len(callers))


def loop_built_pool(fx, eng, rows, a, src, other_srcs, filtered, address):
    """(pool ok, self-filter ok) for a pool that a for loop fills"""
    fresh = None
    for x in T.subterms(a):
        if x[0] == "call" and not x[1].startswith(("havoc:", "fold:")) and sym.strip_all_generics(x[1]).split("::")[-1] in ("new", "default", "with_capacity") and "HashSet" in x[1]:
            fresh = (x[1], x[3])
    if fresh is None:
        return False, False
    ok_src, ok_f, n_ins = True, True, 0
    skip_seen = False
    for row in rows:
        if row.exit != "backedge":
            continue
        ins = []
        for e in row.calls():
            if sym.strip_all_generics(e[1]).split("::")[-1] == "insert" and "HashSet" in e[1]:
                recv = T.resolve_locals(eng, row.store, e[2][0])
                if any(x[0] == "call" and (x[1], x[3]) == fresh for x in T.subterms(recv)):
                    ins.append(e)
        # the iteration this row belongs to: its last `next .. is Some`
        nxt = [c for c in row.cond if c[0] == "variant" and c[3] and c[2] == "Some" and c[1][0] == "call" and c[1][1].endswith("::next")]
        if not nxt:
            continue
        it = T.resolve_locals(eng, row.store, nxt[-1][1])
        it_calls = [x[1] for x in T.subterms(it) if x[0] == "call"]
        if not any(c.endswith(src) for c in it_calls):
            continue        # a loop over another source
        if any(c.endswith(w) for w in other_srcs for c in it_calls):
            ok_src = False
        selfc = None
        for c in row.cond:
            if c[0] == "truth" and c[1][0] == "op" and c[1][1] in ("Ne", "Eq"):
                ops = [T.resolve_locals(eng, row.store, x) for x in (c[1][2], c[1][3])]
                own = [o for o in ops if any(y[0] == "call" and y[1].endswith("self_chitchat_id") for y in T.subterms(o))]
                if own and (not address or T.mentions_field(own[0], "types::ChitchatId", "gossip_advertise_addr")):
                    selfc = (c[1][1] == "Ne") == c[2]      # True: the element differs from the node itself
        if ins:
            n_ins += 1
            if filtered and selfc is not True:
                ok_f = False
        else:
            if filtered and selfc is False:
                skip_seen = True
            else:
                ok_src = False      # an element of the source is dropped for another reason
    return (ok_src and n_ins > 0), (ok_f and n_ins > 0 and (skip_seen or not filtered))


def closure_excludes_self(fx, eng, row, clo, address):
    """the filter closure returns `item != own id` (or own gossip address)"""
    st = sym.St()
    st.store = dict(row.store)
    e2 = sym.Engine(fx, inline_only=set(getattr(fx, "new_helpers", ())))
    outs = list(sym.call_closure(e2, st, clo, [("ptr", ("S", "item"), ())], 0, ("c", 0)))
    for s2, ret in outs:
        if ret[0] == "op" and ret[1] == "Ne":
            ops = [T.resolve_locals(e2, s2.store, x) for x in (ret[2], ret[3])]
            own = [o for o in ops if any(s[0] == "call" and s[1].endswith("self_chitchat_id") for s in T.subterms(o))]
            if own and (not address or T.mentions_field(own[0], "types::ChitchatId", "gossip_advertise_addr")):
                return True
    return False
