"""C15 — key-change listeners (DESIGN §3 C15).  R15.1 is also used by C09's panic inventory."""
from ..core import sym, tables as T, orderenum as oe, callgraph, inventory as inv, panics
from ..core.anchors import where, AnchorLost
from ..roles import Roles, NS
from .. import kv
from ..kv import VV, F


def resolve(eng, row, t):
    return T.resolve_locals(eng, row.store, t)


def boundary_amount(eng, row, buf, amt):
    """the byte offset `amt` is a char boundary of the string `buf` by construction"""
    a = resolve(eng, row, amt)
    if a == sym.C(0):
        return True, "0"
    subs = T.subterms(a)
    # s.len()
    if a[0] == "call" and sym.strip_all_generics(a[1]).endswith("str::len") and panics._same_buffer(eng, row, a[2][0], buf):
        return True, "len()"
    # len_utf8 of the first char of the same string
    lens = [s for s in subs if (s[0] == "fnptr" and s[1].endswith("len_utf8")) or (s[0] == "call" and s[1].endswith("len_utf8"))]
    if lens:
        nexts = [s for s in subs if s[0] == "call" and s[1].endswith("::next") and "Chars" in s[1] and not s[1].startswith("havoc:")]
        if len(nexts) == 1 and nexts[0][3] in (0, 1, None):
            it = resolve(eng, row, nexts[0][2][0])
            chars = [s for s in T.subterms(it) if s[0] == "call" and sym.strip_all_generics(s[1]).endswith("str::chars")]
            if chars and panics._same_buffer(eng, row, chars[0][2][0], buf):
                # exactly the first item of a fresh chars() iterator
                n_next = len([e for e in row.events if e[0] == "call" and e[1] == nexts[0][1]])
                if n_next == 1:
                    return True, "len_utf8(first char)"
    # find()/char_indices() offsets
    for s in subs:
        if s[0] == "call" and sym.strip_all_generics(s[1]).split("::")[-1] in ("find", "rfind", "char_indices", "floor_char_boundary", "ceil_char_boundary"):
            return True, sym.strip_all_generics(s[1]).split("::")[-1]
    return False, sym.fmt(a)[:80]


def str_slice_ok(fx, eng, rows, site):
    """verifier for a `str` range-index panic site: every path's bounds are char boundaries by construction"""
    n = 0
    for row in rows:
        for e in row.events:
            if e[0] != "call" or e[3][1] != site.line or "for str" not in e[1] and "str>" not in e[1]:
                continue
            n += 1
            buf = e[2][0]
            rng = resolve(eng, row, e[2][1])
            if rng[0] != "agg":
                return False, "range is not a literal"
            for nm, v in rng[3]:
                ok, how = boundary_amount(eng, row, buf, v)
                if not ok:
                    return False, "bound `%s` = %s is an arbitrary byte offset into a UTF-8 string" % (nm, how)
    if n == 0:
        return False, "site not found"
    return True, ""


# =====================================================================================
LEVEL = "other"
EXPLANATION = (
    "Trigger discipline and UTF-8 safety decided statically: (R15.1) every `str` range-index site of the crate has bounds that "
    "are char boundaries by construction (0, len(), len_utf8 of the first char of a fresh chars() iterator, find/char_indices "
    "offsets); (R15.2) Listeners::trigger_event has one production caller, set_versioned_value, where it is called iff the "
    "entry was vacant or strictly older and the new status is not Deleted, with an event carrying the key, the new value and "
    "the owning member's id; delete/delete_after_ttl cannot reach it; (R15.3) in InnerListeners::trigger_event the boxed "
    "listeners of the empty prefix get the unstripped event, every other invocation is dominated by strip_key_prefix(prefix) "
    "= Some with listeners and prefix from the same map entry and gets the stripped event, the loop is skipped for the empty "
    "key, any early exit of the loop is implied by 'prefix > key' (evaluated over all strings up to length 3 of a multi-byte "
    "alphabet), and for the recognised bound forms the scanned range [first char of key, key] contains every non-empty prefix "
    "of the key (same enumeration); strip_key_prefix strips exactly the prefix; (R15.4) handle drop removes (prefix, id) "
    "through the weak pointer, forever() disarms it, ids come from fetch_add; (R15.5) every copy a ClusterState creates or "
    "resets carries the cluster's listener registry.")
TRUSTED = ["BTreeMap::range / str::strip_prefix / starts_with semantics", "byte-order comparison of UTF-8 strings"]
ASSUMPTIONS = ["listener callbacks themselves are user code"]

LST = "listener::Listeners"
INNER = "listener::InnerListeners"
KCE = "KeyChangeEvent"
ALPHABET = ["a", "b", "é", "\U0001d11e"]


def all_strings(maxlen):
    import itertools
    out = [""]
    for n in range(1, maxlen + 1):
        for t in itertools.product(ALPHABET, repeat=n):
            out.append("".join(t))
    return out


def run(ctx):
    rep = ctx.report
    fx = ctx.fx
    roles = Roles(fx)
    r15_1(ctx, rep)
    r15_2(ctx, rep, roles)
    r15_3(ctx, rep, roles)
    r15_4(ctx, rep)
    r15_5(ctx, rep, roles)
    from .. import wrappers
    wrappers.listeners(ctx, rep, roles, "C15", "R15.6")
    from .. import identity
    identity.check_keys(ctx, rep, "C15", "R15.7", ["listeners", "kv"])
    # "updates ignored as stale produce no call": R15.2 ties the event to a stored update; which updates are stored is R04.4
    # (an occupied entry is overwritten iff the update is strictly newer) — re-run here (seed E-fa-2: `<` for `<=` in the stale test)
    from . import c04
    c04.r04_4(ctx, rep, roles)
    ctx.report.rules[-1].id = "R15.8(R04.4)"


def r15_1(ctx, rep):
    r = rep.rule("R15.1", "no byte-offset slicing of user strings: every str range-index site uses char-boundary bounds")
    fx = ctx.fx
    n = 0
    for fid in sorted(fx.fns):
        if inv.is_derived(fx, fx.root_fn(fid)):
            continue
        for s in panics.fn_sites(fx, fid):
            if s.kind == "call:index" and ("for str" in s.detail or "str>::index" in s.detail or "String" in s.detail and "Range" in s.detail):
                n += 1
                eng = sym.Engine(fx, inline_only=set(getattr(fx, "new_helpers", ())))
                try:
                    rows = eng.table(fid)
                    ok, why = str_slice_ok(fx, eng, rows, s)
                except sym.Unanalysable as e:
                    ok, why = False, "not analysable: %s" % e
                owner = fx.fns[fx.root_fn(fid)].get("impl_self") or fid
                rep.obligation(ok, "C15/R15.1/str-slice/%s/%s" % (fid, "const-offset" if "0..1" in why or "1" in why[:40] else "byte-offset"),
                               "string slicing at %s: %s" % (s.key(), why), s.where(), sample="%s: bounds are char boundaries by construction" % s.key())
    rep.count("str-slice-sites", n)
    # positive example so that the rule cannot pass vacuously when there is no site: the verifier must reject a constant offset
    class Fake:
        line = -1
    rep.obligation(boundary_amount(sym.Engine(fx), type("R", (), {"store": {}, "events": []})(), ("ptr", ("S", "s"), ()), sym.C(1))[0] is False,
                   "C15/R15.1/self-test", "the char-boundary verifier accepts a constant byte offset 1", None, sample="self-test: offset 1 rejected")
    rep.instance(n)


def r15_2(ctx, rep, roles):
    r = rep.rule("R15.2", "events fire exactly for accepted, non-deleted inserts")
    fx = ctx.fx
    cg = callgraph.CallGraph(fx)
    trig = [f for f in fx.fns.values() if f.get("impl_self") == LST and (f.get("inputs") or [None])[0] == "&mut listener::Listeners" and len(f["inputs"]) == 2]
    if len(trig) != 1:
        raise AnchorLost("Listeners::trigger_event", "not found")
    trig = trig[0]
    svv = roles.set_versioned_value
    for cs in cg.callers_of(trig["id"]):
        rep.obligation(cs.caller == svv["id"], "C15/R15.2/trigger-caller/%s" % cs.caller, "Listeners::trigger_event is called from %s" % cs.caller,
                       where(fx.fns[cs.caller], cs.line), sample="trigger_event called from set_versioned_value only")
    # what is read back through the reference a vacant insert returns is the inserted value (the event may borrow the stored copy)
    eng = sym.Engine(fx, no_inline=kv.listener_fns(fx), summaries=sym.SLOT_SUMMARIES)
    rows = eng.table(svv["id"], arg_terms={1: ("ptr", kv.SELF, ()), 2: ("obj", ("S", "key")), 3: ("obj", ("S", "upd"))})
    UPDV = ("proj", ("obj", ("S", "upd")), F(VV, "version"))
    n = 0
    for row in rows:
        if row.exit != "return":
            continue
        n += 1
        info = kv.cond_info(row)
        stored = bool(kv.vv_aggs(row)) or bool(kv.field_writes(row, VV, "version"))
        st = info["status"]
        deleted = kv.status_deleted(info)
        known_status = kv.status_deleted(info) or kv.status_visible(info)
        fired = [e for e in row.calls() if e[1] == trig["id"]]
        want = stored and known_status and not deleted
        if stored and not known_status:
            # a path that stores the update but returns without deciding on its status: it either notifies for a tombstone or,
            # as in seed R3-C15-2 ("value unchanged" shortcut), stays silent for a visible insert
            rep.obligation(False, "C15/R15.2/stored-without-status-decision",
                           "set_versioned_value stores the update on a path that never examines its status (%d events on that path): conditions [%s]" % (
                               len(fired), "; ".join(sym.fmt_cond(c)[:60] for c in row.cond)), where(svv))
            continue
        rep.obligation(len(fired) == (1 if want else 0), "C15/R15.2/fire-rule",
                       "stored=%s status=%s -> %d events" % (stored, st, len(fired)), where(svv),
                       sample="stored=%s status=%s -> %d event" % (stored, st and st[0], 1 if want else 0))
        for e in fired:
            ev = T.resolve_locals(eng, row.store, e[2][1])
            ok = ev[0] == "agg" and ev[1] == KCE
            if ok:
                k, v, nd = T.field(ev, "key"), T.field(ev, "value"), T.field(ev, "node")
                if v is not None and v[0] == "ptr" and v[1][0] == "D":
                    # a borrow of the slot the update was just moved into: what it points to at the time of the call
                    from .. import models as _m
                    cur = eng.read_rp(_m._St(row.store), v[1], v[2])
                    if cur is not None and any(s == ("obj", ("S", "upd")) for s in T.subterms(cur)):
                        v = cur
                ok = any(s == ("obj", ("S", "key")) for s in T.subterms(k)) and T.mentions_field(v, VV, "value") and any(
                    s == ("obj", ("S", "upd")) or (s[0] == "ptr" and s[1] == ("S", "upd")) for s in T.subterms(v)) and T.mentions_field(nd, NS, "chitchat_id")
            rep.obligation(ok, "C15/R15.2/event-content", "the event is %s" % sym.fmt(ev)[:120], where(svv), sample="event = (key, &update.value, &self.chitchat_id)")
    rep.floor("set_versioned_value-rows", n, 5)
    # deletes cannot reach the listeners
    muts = kv.mutators(fx)
    for nm in ("delete", "delete_after_ttl"):
        reach = cg.reachable([muts[nm]["id"]])
        rep.obligation(trig["id"] not in reach, "C15/R15.2/delete-notifies", "%s can reach the listeners" % nm, where(muts[nm]), sample="%s never notifies" % nm)
    for nm in ("set", "set_with_ttl"):
        reach = cg.reachable([muts[nm]["id"]])
        rep.obligation(trig["id"] in reach, "C15/R15.2/set-silent", "%s no longer reaches the listeners" % nm, where(muts[nm]), sample="%s notifies through set_versioned_value" % nm)
    rep.instance(n)


def str_eval(t, asg):
    """tiny interpreter for the str observers that occur in the listener code"""
    k = t[0]
    if t in asg:
        return asg[t]
    if k == "c":
        return t[1]
    if k == "call":
        nm = sym.strip_all_generics(t[1]).split("::")[-1]
        args = [str_eval(a, asg) for a in t[2]]
        if nm in ("as_str", "deref", "as_ref", "borrow"):
            return args[0]
        if nm == "len":
            return len(args[0].encode("utf-8"))
        if nm == "is_empty":
            return len(args[0]) == 0
        if nm == "starts_with":
            return args[0].startswith(args[1])
        raise oe.NeedAtom(t)
    if k == "op":
        a, b = str_eval(t[2], asg), str_eval(t[3], asg)
        if isinstance(a, str) and isinstance(b, str):
            a, b = a.encode("utf-8"), b.encode("utf-8")
        return sym.concrete_binop(t[1], a, b)
    if k == "un" and t[1] == "Not":
        return not str_eval(t[2], asg)
    if k == "ptr" and t[1][0] == "D":
        return str_eval(t[1][1], asg)
    if k == "obj" and t[1][0] == "D":
        return str_eval(t[1][1], asg)
    raise oe.NeedAtom(t)


def r15_3(ctx, rep, roles):
    r = rep.rule("R15.3", "who is called: empty-prefix listeners with the full key; others only after strip_key_prefix(prefix) = Some, with "
                          "the stripped event; early exits implied by prefix > key; scanned range contains every prefix")
    fx = ctx.fx
    te = [f for f in fx.fns.values() if f.get("impl_self") == INNER and (f.get("inputs") or [None])[0] == "&listener::InnerListeners" and len(f["inputs"]) == 2]
    if len(te) != 1:
        raise AnchorLost("InnerListeners::trigger_event", "not found")
    te = te[0]
    rep.anchor("InnerListeners::trigger_event", where(te))
    strip = [f for f in fx.fns.values() if (f.get("impl_self") or "").startswith(KCE) and f.get("output", "").startswith("std::option::Option<KeyChangeEvent")]
    if len(strip) != 1:
        raise AnchorLost("strip_key_prefix", "not found")
    strip = strip[0]
    eng = sym.Engine(fx, no_inline={strip["id"]}, inline_only=set(getattr(fx, "new_helpers", ())))
    rows = eng.table(te["id"], arg_terms={1: ("ptr", ("S", "self"), ()), 2: ("obj", ("S", "ev"))})
    KEY = ("proj", ("obj", ("S", "ev")), F(KCE, "key"))
    n_inv = 0
    empty_ok = loop_ok = 0
    breaks = []
    for row in rows:
        evs = row.events
        for i, e in enumerate(evs):
            if e[0] != "call":
                continue
            if not ("ops::Fn" in e[1] and e[1].endswith("::call") and "Box" in e[1]):
                continue
            n_inv += 1
            arg = T.resolve_locals(eng, row.store, e[2][1])
            payload = T.field(arg, "0") if arg[0] == "agg" else arg
            listeners_src = T.resolve_locals(eng, row.store, e[2][0])
            if payload == ("obj", ("S", "ev")):
                # unstripped event: must come from the "" entry
                gets = [s for s in T.subterms(listeners_src) if s[0] == "call" and sym.strip_all_generics(s[1]).split("::")[-1] == "get"]
                ok = any(any(x == sym.C("") for x in T.subterms(g)) for g in gets)
                empty_ok += 1 if ok else 0
                rep.obligation(ok, "C15/R15.3/unstripped-event", "a listener that is not registered under the empty prefix receives the unstripped key",
                               where(te, e[3][1]), sample="empty-prefix listeners: full key")
            else:
                # stripped: payload is the Some-payload of strip_key_prefix(&event, prefix_key) with listeners of the same entry
                sk = [s for s in T.subterms(payload) if s[0] == "call" and s[1] == strip["id"]]
                ok = bool(sk) and any(c[0] == "variant" and c[3] and c[2] == "Some" and T.resolve_locals(eng, row.store, c[1]) == sk[0] for c in row.cond)
                if ok:
                    pref = T.resolve_locals(eng, row.store, sk[0][2][1])
                    items_l = [s for s in T.subterms(listeners_src) if s[0] == "proj" and s[2] == F("<tuple>", "1")]
                    items_p = [s for s in T.subterms(pref) if s[0] == "proj" and s[2] == F("<tuple>", "0")]
                    def item_id(t):
                        nx = [x for x in T.subterms(t) if x[0] == "call" and x[1].endswith("::next") and not x[1].startswith("havoc:") and (
                            "Range" in x[1] or any(y[0] == "call" and sym.strip_all_generics(y[1]).split("::")[-1] == "range" for y in T.subterms(x)))]
                        return (nx[0][1], nx[0][3]) if nx else None
                    ok = bool(items_l) and bool(items_p) and item_id(items_l[0][1]) is not None and item_id(items_l[0][1]) == item_id(items_p[0][1])
                    ok = ok and sk[0][2][0] in (("ptr", ("S", "ev"), ()), ("obj", ("S", "ev"))) or ok and any(x == ("obj", ("S", "ev")) for x in T.subterms(T.resolve_locals(eng, row.store, sk[0][2][0])))
                loop_ok += 1 if ok else 0
                rep.obligation(ok, "C15/R15.3/stripped-event", "a prefix listener is invoked without a successful strip of its own prefix from the key",
                               where(te, e[3][1]), sample="prefix listeners: strip_key_prefix(entry.prefix) = Some, entry.listeners, stripped event")
    rep.floor("listener-invocations", n_inv, 2)
    # empty key: no range scan
    for row in rows:
        emp = [c for c in row.cond if c[0] == "truth" and c[1][0] == "call" and c[1][1].endswith("is_empty") and c[2] is True]
        if emp:
            scans = [e for e in row.calls() if sym.strip_all_generics(e[1]).endswith("BTreeMap::range")]
            rep.obligation(not scans and row.exit == "return", "C15/R15.3/empty-key-scan", "the prefix range is scanned for the empty key", where(te),
                           sample="empty key: only the empty-prefix listeners")
    # early exits of the scan loop
    strs = all_strings(2)
    n_eval = 0
    for row in rows:
        if row.exit != "return":
            continue
        # rows that return from inside the loop (iterator yielded Some) with a condition on the iterated prefix
        it_some = [c for c in row.cond if c[0] == "variant" and c[3] and c[2] == "Some" and c[1][0] == "call" and c[1][1].endswith("::next") and (
            "Range" in c[1][1] or any(y[0] == "call" and sym.strip_all_generics(y[1]).split("::")[-1] == "range" for y in T.subterms(T.resolve_locals(eng, row.store, c[1]))))]
        if not it_some:
            continue
        item = sym.proj(sym.proj(it_some[-1][1], ("v", "Some")), F(sym.OPTION, "0"))
        PREF = ("obj", ("D", sym.proj(item, F("<tuple>", "0"))))
        last = row.cond[-1]
        if last[0] != "truth":
            rep.obligation(False, "C15/R15.3/early-exit-form", "the scan loop is left early on an opaque condition", where(te))
            continue
        bad = None
        for p in strs:
            for k_ in strs:
                if not k_:
                    continue
                asg = {PREF: p, KEY: k_, ("ptr", ("D", sym.proj(item, F("<tuple>", "0"))), ()): p, ("obj", ("D", KEY)): k_, ("ptr", ("D", KEY), ()): k_}
                n_eval += 1
                try:
                    val = bool(str_eval(last[1], asg)) == last[2]
                except oe.NeedAtom as ex:
                    bad = bad or "early-exit condition depends on %s" % sym.fmt(ex.atom)[:80]
                    break
                if val and not p.encode() > k_.encode():
                    bad = bad or "the scan stops at registered prefix %r for key %r although later entries can still match" % (p, k_)
            if bad:
                break
        breaks.append(bad)
        rep.obligation(bad is None, "C15/R15.3/early-exit", "early exit of the prefix scan: %s" % bad, where(te), evaluations=n_eval,
                       sample="early exit only when prefix > key (all strings up to length 2 over a,b,é,𝄞)")
    # range bounds
    for row in rows:
        for e in row.calls():
            if sym.strip_all_generics(e[1]).endswith("BTreeMap::range"):
                rng = T.resolve_locals(eng, row.store, e[2][1])
                if rng[0] != "agg":
                    continue
                lo, hi = T.field(rng, "0"), T.field(rng, "1")
                lo_kind = lo[2] if lo[0] == "agg" else None
                hi_kind = hi[2] if hi[0] == "agg" else None
                hi_ok = hi_kind == "Unbounded" or (hi_kind == "Included" and any(s == KEY for s in T.subterms(hi)))
                lo_form = None
                if lo_kind in ("Included",):
                    inner = lo[3][0][1]
                    idx = [s for s in T.subterms(inner) if s[0] == "call" and "for str" in s[1]]
                    if idx:
                        r2 = T.resolve_locals(eng, row.store, idx[0][2][1])
                        end = T.field(r2, "end") if r2[0] == "agg" else None
                        if end is not None:
                            okb, how = boundary_amount(eng, row, idx[0][2][0], end)
                            if okb and how == "len_utf8(first char)":
                                lo_form = "first-char"
                    elif any(s == KEY for s in T.subterms(inner)):
                        lo_form = "key"
                elif lo_kind == "Unbounded":
                    lo_form = "unbounded"
                if lo_form in ("first-char", "unbounded") and hi_ok:
                    bad = None
                    cnt = 0
                    for k_ in all_strings(3):
                        if not k_:
                            continue
                        lo_v = k_[0].encode() if lo_form == "first-char" else b""
                        for j in range(1, len(k_) + 1):
                            p = k_[:j].encode()
                            cnt += 1
                            if not (lo_v <= p <= k_.encode()):
                                bad = bad or (k_, k_[:j])
                    rep.obligation(bad is None, "C15/R15.3/range-completeness", "prefix %r of key %r lies outside the scanned range" % (bad[1], bad[0]) if bad else "",
                                   where(te, e[3][1]), evaluations=cnt, sample="range [first char, key] contains all %d (key, prefix) pairs up to length 3" % cnt)
                elif lo_form == "key":
                    rep.obligation(False, "C15/R15.3/range-lower-bound", "the scan starts at the key itself: shorter prefixes are skipped", where(te, e[3][1]))
                else:
                    rep.note("range bound form not recognised (lower=%s upper=%s): completeness of the scan is not decided" % (lo_kind, hi_kind))
                break
    # strip_key_prefix itself
    eng2 = sym.Engine(fx)
    for row in eng2.table(strip["id"], arg_terms={1: ("ptr", ("S", "ev"), ()), 2: ("ptr", ("S", "prefix"), ())}):
        if row.exit != "return":
            continue
        sp = [c for c in row.cond if c[0] == "variant" and c[3] and c[1][0] == "call" and c[1][1].endswith("strip_prefix")]
        if not sp:
            rep.obligation(False, "C15/R15.3/strip-shape", "strip_key_prefix does not use str::strip_prefix", where(strip))
            continue
        call = sp[0][1]
        ok_args = T.mentions_field(call[2][0], KCE, "key") and any(s == ("obj", ("S", "prefix")) or (s[0] == "ptr" and s[1] == ("S", "prefix")) for s in T.subterms(call[2][1]))
        if sp[0][2] == "Some":
            t = row.ret
            ev = t[3][0][1] if sym.is_some(t) else None
            ok = ev is not None and ev[0] == "agg" and any(s == call for s in T.subterms(T.field(ev, "key"))) and T.mentions_field(T.field(ev, "value"), KCE, "value") \
                and T.mentions_field(T.field(ev, "node"), KCE, "node")
            rep.obligation(ok and ok_args, "C15/R15.3/strip-result", "strip_key_prefix returns %s" % sym.fmt(t)[:100], where(strip),
                           sample="strip_key_prefix = Some{key: key.strip_prefix(prefix), value, node}")
        else:
            rep.obligation(sym.is_none(row.ret) and ok_args, "C15/R15.3/strip-none", "strip_key_prefix returns %s when the prefix does not match" % sym.fmt(row.ret)[:60], where(strip),
                           sample="no match -> None")
    rep.instance(n_inv)


def r15_4(ctx, rep):
    r = rep.rule("R15.4", "handles: drop removes (prefix, id) through the weak pointer; forever() disarms; ids from fetch_add")
    fx = ctx.fx
    LH = "listener::ListenerHandle"
    dr = [f for f in fx.fns.values() if f.get("impl_self") == LH and f.get("impl_trait") == "std::ops::Drop"]
    fv = [f for f in fx.fns.values() if f.get("impl_self") == LH and not f.get("impl_trait") and f.get("inputs") == [LH]]
    rm = [f for f in fx.fns.values() if f.get("impl_self") == INNER and f.get("inputs") == ["&mut listener::InnerListeners", "&str", "usize"]]
    if not (len(dr) == 1 and len(fv) == 1 and len(rm) == 1):
        raise AnchorLost("listener handle", "Drop/forever/remove_listener not found (%d/%d/%d)" % (len(dr), len(fv), len(rm)))
    eng = sym.Engine(fx, no_inline={rm[0]["id"]})
    n = 0
    for row in eng.table(dr[0]["id"], arg_terms={1: ("ptr", ("S", "self"), ())}):
        up = None
        for c in row.cond:
            if c[0] == "variant" and c[3] and c[1][0] == "call" and c[1][1].endswith("::upgrade"):
                up = c[2]
        rms = [e for e in row.calls() if e[1] == rm[0]["id"]]
        n += 1
        if up == "Some":
            ok = len(rms) == 1 and T.mentions_field(rms[0][2][1], LH, "prefix") and T.last_field(rms[0][2][2]) == (LH, "listener_id")
            rep.obligation(ok, "C15/R15.4/drop-removes", "dropping a live handle does not remove (prefix, id)", where(dr[0]), sample="drop: remove_listener(prefix, id)")
        else:
            rep.obligation(not rms, "C15/R15.4/drop-dangling", "a disarmed handle still removes", where(dr[0]), sample="dangling weak: nothing removed")
    eng2 = sym.Engine(fx)
    for row in eng2.table(fv[0]["id"], arg_terms={1: ("obj", ("S", "self"))}):
        ws = [e for e in row.events if e[0] in ("write", "lwrite") and e[2] and e[2][-1] == F(LH, "listeners")]
        ok = len(ws) == 1 and ws[0][3][0] == "call" and "Weak" in ws[0][3][1] and ws[0][3][1].endswith("::new")
        forgotten = [e for e in row.calls() if e[1].endswith("mem::forget") or "ManuallyDrop" in e[1]]
        ok = ok or bool(forgotten)
        rep.obligation(ok, "C15/R15.4/forever", "forever() does not replace the weak pointer by a dangling one", where(fv[0]), sample="forever: listeners = Weak::new()")
    # remove_listener removes exactly (prefix, id)
    eng3 = sym.Engine(fx)
    for row in eng3.table(rm[0]["id"], arg_terms={1: ("ptr", ("S", "self"), ()), 2: ("ptr", ("S", "prefix"), ()), 3: ("obj", ("S", "idx"))}):
        rs = [e for e in row.calls() if sym.strip_all_generics(e[1]).endswith("HashMap::remove")]
        gm = [e for e in row.calls() if sym.strip_all_generics(e[1]).endswith("BTreeMap::get_mut")]
        if rs:
            ok = bool(gm) and any(s == ("obj", ("S", "idx")) or (s[0] == "ptr" and T.resolve_locals(eng3, row.store, s) == ("obj", ("S", "idx"))) for s in T.subterms(T.resolve_locals(eng3, row.store, rs[0][2][1]))) \
                and any(s[0] in ("ptr", "obj") and s[1] == ("S", "prefix") for s in T.subterms(gm[0][2][1]))
            rep.obligation(ok, "C15/R15.4/remove-key", "remove_listener does not remove exactly (prefix, id)", where(rm[0]), sample="remove_listener: listeners[prefix].remove(id)")
    # ids from fetch_add(1)
    sub = [f for f in fx.fns.values() if f.get("impl_self") == LST and f.get("output") == LH and len(f.get("inputs", [])) == 3 and f["inputs"][1] == "std::string::String"]
    for f in sub:
        # the registration (InnerListeners::subscribe_event) is followed into: the id may be allocated on either side of that call
        reg = {g["id"] for g in fx.fns.values() if g.get("impl_self") == "listener::InnerListeners" and g["id"].split("::")[-1] == "subscribe_event"}
        eng4 = sym.Engine(fx, inline_only=set(getattr(fx, "new_helpers", ())) | reg)
        for row in eng4.table(f["id"]):
            if row.exit != "return" or row.ret is None or row.ret[0] != "agg":
                continue
            lid = T.resolve_locals(eng4, row.store, T.field(row.ret, "listener_id"))
            ok = lid[0] == "call" and lid[1].endswith("fetch_add")
            if not ok and T.last_field(lid) is not None and T.last_field(lid)[1] == "listener_idx":
                # a plain counter under the write lock: id = counter; counter := counter + 1 (wrapping / checked / plain)
                for wv in [e for e in row.events if e[0] in ("write", "lwrite")]:      # the guard is a local: lwrite
                    if wv[2] and wv[2][-1][0] == "f" and wv[2][-1][2] == "listener_idx":
                        nv = T.resolve_locals(eng4, row.store, wv[3])
                        inc = [x for x in T.subterms(nv) if (x[0] == "call" and sym.strip_all_generics(x[1]).split("::")[-1] in ("wrapping_add", "checked_add", "saturating_add")
                                                              and len(x[2]) == 2 and x[2][1] == sym.C(1) and T.resolve_locals(eng4, row.store, x[2][0]) == lid) or (
                            x[0] == "op" and x[1] in ("Add", "AddWithOverflow") and sym.C(1) in (x[2], x[3]) and lid in (x[2], x[3]))]
                        ok = ok or bool(inc)
            rep.obligation(ok, "C15/R15.4/id-source", "listener ids come from %s" % sym.fmt(lid)[:60], where(f), sample="id = listener_idx.fetch_add(1)")
            sube = [e for e in row.calls() if e[1].endswith("InnerListeners::subscribe_event")]
            ins = [e for e in row.calls() if sym.strip_all_generics(e[1]).endswith("HashMap::insert")]
            if ins:
                rep.obligation(len(ins) == 1 and T.resolve_locals(eng4, row.store, ins[0][2][1]) == lid, "C15/R15.4/id-registered",
                               "the registered id differs from the handle's id", where(f), sample="same id registered and returned")
            elif sube:
                rep.obligation(len(sube[0][2]) > 2 and T.resolve_locals(eng4, row.store, sube[0][2][2]) == lid, "C15/R15.4/id-registered",
                               "the registered id differs from the handle's id", where(f), sample="same id registered and returned")
    rep.instance(n)


def r15_5(ctx, rep, roles):
    r = rep.rule("R15.5", "every member copy created or reset by the cluster state carries the cluster's listener registry")
    fx = ctx.fx
    new = [f for f in fx.methods_of(NS) if f.get("output") == NS and f.get("inputs") == ["types::ChitchatId", LST]]
    if len(new) != 1:
        raise AnchorLost("NodeState::new", "constructor (id, listeners) not found")
    new = new[0]
    cg = callgraph.CallGraph(fx)
    n = 0
    for cs in cg.callers_of(new["id"]):
        n += 1
        caller = fx.fns[cs.caller]
        eng = sym.Engine(fx, no_inline={new["id"]}, inline_only=set(getattr(fx, "new_helpers", ())), summaries=sym.ENTRY_SUMMARIES)
        ok = False
        tabled = cs.real_caller
        if fx.fns[tabled]["kind"] == "closure":
            tabled = fx.root_fn(tabled)        # e.g. the closure of `entry(..).or_insert_with(|| NodeState::new(..))`: followed from its parent
        for row in eng.table(tabled):
            for e in row.calls():
                if e[1] == new["id"]:
                    ls = T.resolve_locals(eng, row.store, e[2][1])
                    ok = T.mentions_field(ls, NS, "listeners") or T.mentions_field(ls, "state::ClusterState", "listeners")
        rep.obligation(ok, "C15/R15.5/listeners-lost/%s" % cs.caller, "%s builds a member copy that is not attached to the listener registry" % cs.caller,
                       where(caller, cs.line), sample="%s: NodeState::new(.., listeners.clone())" % cs.caller.split("::")[-1])
    rep.floor("constructor-call-sites", n, 2)
    eng = sym.Engine(fx)
    for row in eng.table(new["id"], arg_terms={1: ("obj", ("S", "id")), 2: ("obj", ("S", "ls"))}):
        if row.exit == "return":
            rep.obligation(row.ret[0] == "agg" and T.field(row.ret, "listeners") == ("obj", ("S", "ls")), "C15/R15.5/constructor", "NodeState::new drops its listeners argument",
                           where(new), sample="NodeState::new stores the listeners argument")
    # clone of Listeners shares the registry (derived Clone on an Arc field) — checked by type: field `inner` is an Arc
    adt = fx.adts.get(LST)
    ok = adt is not None and any(f["name"] == "inner" and f["ty"].startswith("std::sync::Arc<") for f in adt["variants"][0]["fields"])
    rep.obligation(ok, "C15/R15.5/shared-registry", "Listeners is no longer a shared (Arc) handle", None, sample="Listeners { inner: Arc<..> }")
    rep.instance(n)
