"""C15 — key-change listeners (DESIGN §3 C15).  R15.1 is also used by C09's panic inventory."""
from ..core import sym, tables as T, orderenum as oe, callgraph, inventory as inv, panics
from ..core.anchors import where, AnchorLost
from ..roles import Roles, NS
from .. import kv
from ..kv import VV, F


def resolve(eng, row, t):
    return T.resolve_locals(eng, row.store, t)


def boundary_amount(eng, row, buf, amt):
    """the byte offset `amt` is a char boundary of the string `buf` by construction"""
    a = resolve(eng, row, amt)
    if a == sym.C(0):
        return True, "0"
    subs = T.subterms(a)
    # s.len()
    if a[0] == "call" and sym.strip_all_generics(a[1]).endswith("str::len") and panics._same_buffer(eng, row, a[2][0], buf):
        return True, "len()"
    # len_utf8 of the first char of the same string
    lens = [s for s in subs if (s[0] == "fnptr" and s[1].endswith("len_utf8")) or (s[0] == "call" and s[1].endswith("len_utf8"))]
    if lens:
        nexts = [s for s in subs if s[0] == "call" and s[1].endswith("::next") and "Chars" in s[1] and not s[1].startswith("havoc:")]
        if len(nexts) == 1 and nexts[0][3] in (0, 1, None):
            it = resolve(eng, row, nexts[0][2][0])
            chars = [s for s in T.subterms(it) if s[0] == "call" and sym.strip_all_generics(s[1]).endswith("str::chars")]
            if chars and panics._same_buffer(eng, row, chars[0][2][0], buf):
                # exactly the first item of a fresh chars() iterator
                n_next = len([e for e in row.events if e[0] == "call" and e[1] == nexts[0][1]])
                if n_next == 1:
                    return True, "len_utf8(first char)"
    # find()/char_indices() offsets
    for s in subs:
        if s[0] == "call" and sym.strip_all_generics(s[1]).split("::")[-1] in ("find", "rfind", "char_indices", "floor_char_boundary", "ceil_char_boundary"):
            return True, sym.strip_all_generics(s[1]).split("::")[-1]
    return False, sym.fmt(a)[:80]


def str_slice_ok(fx, eng, rows, site):
    """verifier for a `str` range-index panic site: every path's bounds are char boundaries by construction"""
    n = 0
    for row in rows:
        for e in row.events:
            if e[0] != "call" or e[3][1] != site.line or "for str" not in e[1] and "str>" not in e[1]:
                continue
            n += 1
            buf = e[2][0]
            rng = resolve(eng, row, e[2][1])
            if rng[0] != "agg":
                return False, "range is not a literal"
            for nm, v in rng[3]:
                ok, how = boundary_amount(eng, row, buf, v)
                if not ok:
                    return False, "bound `%s` = %s is an arbitrary byte offset into a UTF-8 string" % (nm, how)
    if n == 0:
        return False, "site not found"
    return True, ""
