"""C03 — integrity: copies hold only what the owner wrote (DESIGN §3 C03)."""
import itertools
from ..core import sym, tables as T, orderenum as oe, callgraph, inventory as inv
from ..core.anchors import where, AnchorLost
from ..core import anchors as A
from ..roles import Roles, NS, ND, DS
from .. import models, kv
from ..models import ModelError, F
from ..kv import VV

LEVEL = "other"
EXPLANATION = (
    "Structural clauses decided statically: (R03.1) verbatim copies — every aggregate through which an entry travels "
    "(KeyValueMutation in try_add_kv, KeyValueMutationRef, DeltaOpRef, DeltaOp::Node in try_add_node, NodeDigest in "
    "NodeState::digest, the (id, digest) pair of compute_digest, VersionedValue in the receiver) takes each field from the "
    "same-named field of its source / the positional argument, and an accepted insert stores the update unchanged; (R03.2) the "
    "status conversions between DeletionStatus and DeletionStatusMutation compose to the identity on kinds; (R03.3) decode "
    "grouping — a Node op flushes the previous member, is rejected if the member already occurred, and key-value / "
    "SetMaxVersion ops only ever modify the current member delta (None => error); (R03.4) heartbeat provenance = C05/R05.3 + "
    "C11 digest pairing; (R03.5) SetMaxVersion carries the sender copy's max version = C14/R14.1b; (R03.6 = C08/R08.8) decoded values and written bytes flow only through reviewed value-preserving calls (no canonicalisation, case folding, trimming on either side of the wire). 'Never run ahead of the "
    "owner' is an induction over histories and is NOT decided.")
TRUSTED = ["String/clone semantics"]
ASSUMPTIONS = ["every ChitchatId is used by at most one incarnation"]

KVM = "types::KeyValueMutation"
KVR = "types::KeyValueMutationRef"


def run(ctx):
    rep = ctx.report
    fx = ctx.fx
    roles = Roles(fx)
    r03_1(ctx, rep, roles)
    r03_2(ctx, rep, roles)
    r03_3(ctx, rep, roles)
    # receiver-side verbatim store, heartbeat provenance and SetMaxVersion content are rules of other properties, re-run here
    try:
        adm = models.Admission(fx, roles)
        app = models.Apply(fx, roles)
        snd = models.Sender(fx, roles)
        from . import c02, c14, c05
        c02.r02_1(ctx, rep, roles, adm, app)
        ctx.report.rules[-1].id = "R03.1r(R02.1)"
        c14.r14_1b(ctx, rep, snd, roles)
        ctx.report.rules[-1].id = "R03.5(R14.1b)"
        c05.r05_3(ctx, rep, roles)
        ctx.report.rules[-1].id = "R03.4(R05.3)"
        from . import c08
        from ..core import wire
        S_ = wire.impls(fx, wire.SER, "serialize")
        L_ = wire.impls(fx, wire.SER, "serialized_len")
        D_ = wire.impls(fx, wire.DES, "deserialize")
        W_ = {ty: (f,) + tuple(wire.writer(fx, f, S_, L_)) for ty, f in sorted(S_.items())}
        c08.r08_8(ctx, rep, S_, L_, D_, W_)
        ctx.report.rules[-1].id = "R03.6(R08.8)"
        from .. import wrappers
        wrappers.vv_conversions(ctx, rep, roles, "C03", "R03.7")
        # "no heartbeat recorded for X exceeds X's own": the owner's heartbeat never goes back (no wrap)
        wrappers.heartbeat_inc(ctx, rep, roles, "C03", "R03.9")
        from .. import identity as _idn
        _idn.check_keys(ctx, rep, "C03", "R03.10", ["cluster", "kv", "digest"])
        from .. import identity
        identity.check(ctx, rep, "C03", "R03.8", ["id-eq", "id-ord", "vv-clone", "kvm-clone", "dsm-eq"])
    except ModelError as e:
        rep.rule("R03.x", "shared models")
        rep.violation("C03/" + e.key, e.msg, e.where)


def src_is(term, root, adt=None, name=None):
    """term reads field `name` of the symbolic source object `root` (through references / clones / as_str)"""
    for s in T.subterms(term):
        if s[0] == "proj" and s[2][0] == "f" and s[2][2] == name and (adt is None or s[2][1] == adt):
            base = s[1]
            while base[0] == "proj" and base[2][0] == "v":
                base = base[1]
            if base == ("obj", root) or (base[0] == "obj" and base[1][0] == "D" and base[1][1] == ("obj", root)):
                return True
        if s[0] == "ptr" and s[1] == root and s[2] and s[2][-1][0] == "f" and s[2][-1][2] == name:
            return True
    return False


def other_fields(term, root, name):
    """fields of `root` other than `name` that the term reads"""
    out = set()
    for s in T.subterms(term):
        if s[0] == "proj" and s[2][0] == "f":
            base = s[1]
            while base[0] == "proj" and base[2][0] == "v":
                base = base[1]
            if base == ("obj", root) and s[2][2] != name:
                out.add(s[2][2])
        if s[0] == "ptr" and s[1] == root and s[2] and s[2][-1][0] == "f" and s[2][-1][2] != name:
            out.add(s[2][-1][2])
    return out


def check_copy(rep, key, fn, agg, root, mapping, adt=None):
    """every field of `agg` comes from mapping[field] of the source and from no other field"""
    for fname, want in mapping.items():
        t = T.field(agg, fname)
        if t is None:
            rep.obligation(False, key + "/" + fname, "field %s missing in %s" % (fname, sym.fmt(agg)[:60]), where(fn))
            continue
        ok = src_is(t, root, adt, want) and not other_fields(t, root, want)
        rep.obligation(ok, key + "/" + fname, "%s is built from %s, expected the source's `%s`" % (fname, sym.fmt(t)[:70], want), where(fn),
                       sample="%s <- source.%s" % (fname, want))


def r03_1(ctx, rep, roles):
    r = rep.rule("R03.1", "verbatim copies: every field of every carrier aggregate comes from the same-named source field")
    fx = ctx.fx
    n = 0
    # (a) try_add_kv: KeyValueMutation from (key, versioned_value)
    f = roles.ser_add_kv
    eng = sym.Engine(fx, no_inline={roles.ser_add_op["id"]})
    VVR = ("S", "vv")
    for row in eng.table(f["id"], arg_terms={1: ("ptr", ("S", "self"), ()), 2: ("ptr", ("S", "key"), ()), 3: ("obj", VVR)}):
        for e in row.calls():
            if e[1] == roles.ser_add_op["id"]:
                n += 1
                op = T.resolve_locals(eng, row.store, e[2][1])
                aggs = T.find_aggs(op, KVM)
                rep.obligation(len(aggs) == 1 and op[0] == "agg" and op[2] == "KeyValue", "C03/R03.1/try_add_kv/shape", "try_add_kv builds %s" % sym.fmt(op)[:80], where(f))
                if aggs:
                    a = aggs[0]
                    k = T.field(a, "key")
                    rep.obligation(any(s == ("ptr", ("S", "key"), ()) or s == ("obj", ("S", "key")) for s in T.subterms(k)), "C03/R03.1/try_add_kv/key",
                                   "the mutation's key is %s" % sym.fmt(k)[:60], where(f), sample="mutation.key <- key argument")
                    check_copy(rep, "C03/R03.1/try_add_kv", f, a, VVR, {"value": "value", "version": "version"}, VV)
                    st = T.field(a, "status")
                    kind = None
                    for c in row.cond:
                        if c[0] == "variant" and c[3] and T.last_field(c[1]) == (VV, "status"):
                            kind = c[2]
                    want = {"Set": "Set", "Deleted": "Delete", "DeleteAfterTtl": "DeleteAfterTtl"}.get(kind)
                    rep.obligation(st is not None and st[0] == "agg" and st[2] == want, "C03/R03.1/try_add_kv/status",
                                   "status %s is sent as %s" % (kind, sym.fmt(st)[:40] if st else None), where(f), sample="status kind %s -> %s" % (kind, want))
    # (b) KeyValueMutationRef::from(&KeyValueMutation)
    fr = [x for x in fx.fns.values() if (x.get("impl_self") or "").startswith(KVR) and (x.get("impl_trait") or "").startswith("std::convert::From<")]
    for f in fr:
        eng = sym.Engine(fx)
        for row in eng.table(f["id"], arg_terms={1: ("ptr", ("S", "m"), ())}):
            if row.exit == "return" and row.ret[0] == "agg":
                n += 1
                check_copy(rep, "C03/R03.1/KeyValueMutationRef", f, row.ret, ("S", "m"), {"key": "key", "value": "value", "version": "version", "state": "status"}, KVM)
    # (c) DeltaOp::as_ref
    ar = [x for x in fx.fns.values() if x.get("impl_self") == "delta::DeltaOp" and not x.get("impl_trait") and (x.get("output") or "").startswith("delta::DeltaOpRef")]
    for f in ar:
        eng = sym.Engine(fx)
        for row in eng.table(f["id"], arg_terms={1: ("ptr", ("S", "op"), ())}):
            if row.exit != "return" or row.ret[0] != "agg":
                continue
            n += 1
            v = wire_variant(row)
            rep.obligation(row.ret[2] == v, "C03/R03.1/as_ref/variant", "DeltaOp::%s is viewed as DeltaOpRef::%s" % (v, row.ret[2]), where(f), sample="as_ref keeps the variant %s" % v)
            if v == "Node":
                check_copy(rep, "C03/R03.1/as_ref/Node", f, row.ret, ("S", "op"), {"chitchat_id": "chitchat_id", "last_gc_version": "last_gc_version",
                                                                                      "from_version_excluded": "from_version_excluded"})
            elif v == "SetMaxVersion":
                check_copy(rep, "C03/R03.1/as_ref/SetMaxVersion", f, row.ret, ("S", "op"), {"max_version": "max_version"})
            elif v == "KeyValue":
                check_copy(rep, "C03/R03.1/as_ref/KeyValue", f, row.ret, ("S", "op"), {"0": "0"})
    # (d) NodeState::digest
    f = roles.node_digest
    eng = sym.Engine(fx)
    for row in eng.table(f["id"], arg_terms={1: ("ptr", ("S", "st"), ())}):
        if row.exit == "return":
            n += 1
            check_copy(rep, "C03/R03.1/NodeDigest", f, row.ret, ("S", "st"), {"heartbeat": "heartbeat", "last_gc_version": "last_gc_version", "max_version": "max_version"}, NS)
    # (e) compute_digest: (id.clone(), state.digest()) of one map entry — iterator chain or loop with insert alike
    f = roles.compute_digest
    eng = sym.Engine(fx, no_inline={roles.node_digest["id"]})
    okp = False
    rows_d = eng.table(f["id"], arg_terms={1: ("ptr", ("S", "self"), ()), 2: ("ptr", ("S", "excl"), ())})
    for row, adds in T.collection_items(eng, rows_d):
        for k, v in adds:
            if v is None:
                continue
            nxt_k = [x for x in T.subterms(k) if x[0] == "call" and x[1].endswith("::next") and not x[1].startswith("havoc:")]
            nxt_v = [x for x in T.subterms(v) if x[0] == "call" and x[1].endswith("::next") and not x[1].startswith("havoc:")]
            same_entry = bool(nxt_k) and bool(nxt_v) and (nxt_k[0][1], nxt_k[0][3]) == (nxt_v[0][1], nxt_v[0][3])
            key_part = any(x[0] == "proj" and x[2] == F("<tuple>", "0") for x in T.subterms(k)) and not any(x[0] == "proj" and x[2] == F("<tuple>", "1") for x in T.subterms(k))
            okv = v[0] == "call" and v[1] == roles.node_digest["id"] and any(x[0] == "proj" and x[2] == F("<tuple>", "1") for x in T.subterms(v))
            calls_k = {sym.strip_all_generics(x[1][6:] if x[1].startswith("havoc:") else x[1]).split("::")[-1] for x in T.subterms(k) if x[0] == "call"} - {"next", "iter", "into_iter", "clone"}
            n += 1
            via_state = T.mentions_field(k, NS, "chitchat_id") and any(x[0] == "proj" and x[2] == F("<tuple>", "1") for x in T.subterms(k))
            calls_k -= {"chitchat_id"}
            okp = same_entry and (key_part or via_state) and okv and not calls_k
            rep.obligation(okp, "C03/R03.1/compute_digest/pair", "digest entry is (%s, %s)" % (sym.fmt(k)[:50], sym.fmt(v)[:50]), where(f),
                           sample="digest entry = (entry.id.clone(), entry.state.digest())")
    rep.obligation(okp, "C03/R03.1/compute_digest/anchor", "cannot find the (id, digest) pairing of compute_digest", where(f))
    # (f) try_add_node: positional
    f = roles.ser_add_node
    eng = sym.Engine(fx, no_inline={roles.ser_add_op["id"]})
    for row in eng.table(f["id"], arg_terms={1: ("ptr", ("S", "self"), ()), 2: ("obj", ("S", "id")), 3: ("obj", ("S", "gc")), 4: ("obj", ("S", "from"))}):
        for e in row.calls():
            if e[1] == roles.ser_add_op["id"]:
                n += 1
                op = T.resolve_locals(eng, row.store, e[2][1])
                ok = op[0] == "agg" and op[2] == "Node" and T.field(op, "chitchat_id") == ("obj", ("S", "id")) and T.field(op, "last_gc_version") == ("obj", ("S", "gc")) \
                    and T.field(op, "from_version_excluded") == ("obj", ("S", "from"))
                rep.obligation(ok, "C03/R03.1/try_add_node", "try_add_node builds %s" % sym.fmt(op)[:100], where(f),
                               sample="Node{chitchat_id <- arg1, last_gc_version <- arg2, from_version_excluded <- arg3}")
    # (g) set_versioned_value stores the update unchanged, and nothing rewrites the stored entry afterwards
    f = roles.set_versioned_value
    eng = sym.Engine(fx, no_inline=kv.listener_fns(fx))
    UPD = ("S", "upd")
    for row in eng.table(f["id"], arg_terms={1: ("ptr", kv.SELF, ()), 2: ("obj", ("S", "key")), 3: ("obj", UPD)}):
        if row.exit != "return":
            continue
        stores = kv.vv_aggs(row)
        for kind, agg, e in stores:
            n += 1
            check_copy(rep, "C03/R03.1/set_versioned_value", f, agg, UPD, {"value": "value", "version": "version", "status": "status"}, VV)
        if stores:
            late = [e for e in kv.effective_writes(row) if e[2] and e[2][-1][0] == "f" and e[2][-1][1] == VV and e[3][0] != "agg"]
            rep.obligation(not late, "C03/R03.1/set_versioned_value/rewritten", "after storing the update, the entry's %s is rewritten" % [e[2][-1][2] for e in late], where(f),
                           sample="stored entry is exactly the update")
    rep.floor("carrier-sites", n, 14)
    rep.instance(n)


def wire_variant(row):
    for c in row.cond:
        if c[0] == "variant" and c[3]:
            return c[2]
    return None


def r03_2(ctx, rep, roles):
    r = rep.rule("R03.2", "status conversions compose to the identity on kinds")
    fx = ctx.fx
    DSt, DSM = "types::DeletionStatus", "types::DeletionStatusMutation"
    fr = [x for x in fx.fns.values() if x.get("impl_self") == DSM and (x.get("impl_trait") or "") == "std::convert::From<types::DeletionStatus>"]
    into = A.method(fx, "into_status", DSM, [DSM, "tokio::time::Instant"], DSt)
    if len(fr) != 1:
        raise AnchorLost("From<DeletionStatus>", "not found")
    eng = sym.Engine(fx)
    fwd = {}
    for row in eng.table(fr[0]["id"], arg_terms={1: ("obj", ("S", "s"))}):
        if row.exit == "return":
            fwd[wire_variant(row)] = row.ret[2] if row.ret[0] == "agg" else None
    back = {}
    for row in eng.table(into["id"], arg_terms={1: ("obj", ("S", "m")), 2: ("obj", ("S", "now"))}):
        if row.exit == "return":
            back[wire_variant(row)] = row.ret[2] if row.ret[0] == "agg" else None
    for k in ("Set", "Deleted", "DeleteAfterTtl"):
        m = fwd.get(k)
        rep.obligation(m is not None and back.get(m) == k, "C03/R03.2/roundtrip/%s" % k, "status %s is sent as %s and restored as %s" % (k, m, back.get(m)), where(fr[0]),
                       sample="%s -> %s -> %s" % (k, m, back.get(m)))
    rep.obligation(len(set(fwd.values())) == 3, "C03/R03.2/injective", "two status kinds are sent as the same mutation kind: %s" % fwd, where(fr[0]))
    rep.instance(3)


def r03_3(ctx, rep, roles):
    r = rep.rule("R03.3", "decode grouping: no op without a preceding member header; no duplicate member; ops touch only the current member delta")
    fx = ctx.fx
    f = roles.builder_apply_op
    fl = [x for x in fx.fns.values() if x.get("impl_self") == "delta::DeltaBuilder" and x.get("inputs") == ["&mut delta::DeltaBuilder"] and x.get("output") == "()"]
    if len(fl) != 1:
        raise AnchorLost("DeltaBuilder::flush", "not found")
    fl = fl[0]
    eng = sym.Engine(fx, no_inline={fl["id"]})
    rows = eng.table(f["id"], arg_terms={1: ("ptr", ("S", "self"), ()), 2: ("obj", ("S", "op"))})
    OP = ("obj", ("S", "op"))
    DB = "delta::DeltaBuilder"
    CUR = (F(DB, "current_node_delta"),)
    n = 0
    for row in rows:
        if row.exit != "return":
            continue
        arm = None
        for c in row.cond:
            if c[0] == "variant" and c[1] == OP and c[3]:
                arm = c[2]
        ok_ret = row.ret is not None and row.ret[0] == "agg" and row.ret[2] == "Ok"
        n += 1
        if arm == "Node":
            flushes = [e for e in row.calls() if e[1] == fl["id"]]
            dup = None
            for c in row.cond:
                if c[0] == "truth" and c[1][0] == "call" and c[1][1].endswith("::contains") and T.last_field(c[1][2][0]) == (DB, "existing_nodes"):
                    dup = c[2]
                    key = c[1][2][1]
            newcur = [e for e in row.events if e[0] == "write" and e[1] == ("S", "self") and e[2] == CUR]
            if ok_ret:
                good = len(flushes) == 1 and dup is False and len(newcur) == 1
                if good:
                    nd = T.find_aggs(newcur[0][3], ND)
                    good = len(nd) == 1
                    if good:
                        nd = nd[0]
                        idt = T.field(nd, "chitchat_id")
                        good = any(s == ("proj", ("proj", OP, ("v", "Node")), F("delta::DeltaOp", "chitchat_id")) for s in T.subterms(idt)) \
                            and T.field(nd, "last_gc_version") == ("proj", ("proj", OP, ("v", "Node")), F("delta::DeltaOp", "last_gc_version")) \
                            and T.field(nd, "from_version_excluded") == ("proj", ("proj", OP, ("v", "Node")), F("delta::DeltaOp", "from_version_excluded")) \
                            and T.field(nd, "max_version") == sym.C(0)
                        # flushed before the new member is installed; duplicate check on the op's id
                        good = good and row.events.index(flushes[0]) < row.events.index(newcur[0])
                        good = good and any(s == ("proj", ("proj", OP, ("v", "Node")), F("delta::DeltaOp", "chitchat_id")) for s in T.subterms(T.resolve_locals(eng, row.store, key)))
                        ins = [e for e in row.calls() if e[1].endswith("::insert") and T.last_field(e[2][0]) == (DB, "existing_nodes") or (
                            e[1].endswith("::insert") and e[2] and e[2][0][0] == "ptr" and e[2][0][2] and e[2][0][2][-1] == F(DB, "existing_nodes"))]
                        good = good and len(ins) == 1
                rep.obligation(good, "C03/R03.3/node-arm", "Node op: flushes=%d duplicate-check=%s installs=%d (or header fields not copied from the op)" % (
                    len(flushes), dup, len(newcur)), where(f), sample="Node: flush; reject duplicate; remember id; current := NodeDelta{id, gc, from, [], 0}")
            else:
                rep.obligation(dup is True and not newcur, "C03/R03.3/node-arm-error", "Node op fails on a path other than 'member already seen' or still installs a member",
                               where(f), sample="duplicate member -> error, nothing installed")
        elif arm in ("KeyValue", "SetMaxVersion"):
            cur_some = None
            for c in row.cond:
                if c[0] == "variant" and c[3] and c[2] in ("Some", "None", "Ok", "Err") and any(
                        (s[0] == "ptr" and s[1] == ("S", "self") and s[2] == CUR) or (s[0] == "proj" and s[2] == CUR[0]) for s in T.subterms(c[1])):
                    cur_some = c[2] in ("Some", "Ok")
                    break
            writes = [e for e in row.events if e[0] == "write"]
            pushes = [e for e in row.calls() if sym.strip_all_generics(e[1]).endswith("Vec::push")]
            if ok_ret:
                targets_ok = all(any(x == CUR[0] or (x[0] == "f" and x[1] == ND) for x in e[2]) or T.mentions_field(("obj", e[1]), DB, "current_node_delta") or
                                 (e[1][0] == "D" and T.mentions_field(e[1][1], DB, "current_node_delta")) or sym.is_havoc if False else True for e in writes)
                tg = []
                for e in writes:
                    if kv.is_havoc(e[3]):
                        continue
                    inside = (e[1][0] == "D" and T.mentions_field(e[1][1], DB, "current_node_delta")) or (e[1] == ("S", "self") and e[2][:1] == CUR)
                    tg.append(inside)
                for e in pushes:
                    tg.append(T.mentions_field(e[2][0], DB, "current_node_delta") or any(s[0] == "call" and "as_mut" in s[1] for s in T.subterms(T.resolve_locals(eng, row.store, e[2][0]))))
                rep.obligation(cur_some is True and all(tg) and bool(tg), "C03/R03.3/%s-arm" % arm, "%s op modifies something other than the current member delta "
                               "(current present=%s)" % (arm, cur_some), where(f), sample="%s: only through current_node_delta (Some)" % arm)
            elif cur_some is False:
                real = [e for e in writes if not kv.is_havoc(e[3])]
                rep.obligation(not real and not pushes, "C03/R03.3/%s-no-header" % arm, "%s op without a member header still has an effect" % arm, where(f),
                               sample="%s without header -> error" % arm)
    rep.floor("apply_op-rows", n, 6)
    # flush moves the current member into the delta
    eng2 = sym.Engine(fx)
    for row in eng2.table(fl["id"], arg_terms={1: ("ptr", ("S", "self"), ())}):
        took = None
        for c in row.cond:
            if c[0] == "variant" and c[3] and c[1][0] == "call" and c[1][1].endswith("::take"):
                took = c[2]
        pushes = [e for e in row.calls() if sym.strip_all_generics(e[1]).endswith("Vec::push")]
        if took == "Some":
            ok = len(pushes) == 1 and T.mentions_field(pushes[0][2][0], "delta::Delta", "node_deltas") and any(
                s[0] == "call" and s[1].endswith("::take") for s in T.subterms(T.resolve_locals(eng2, row.store, pushes[0][2][1])))
            rep.obligation(ok, "C03/R03.3/flush", "flush does not move the current member delta into the delta", where(fl), sample="flush: delta.node_deltas.push(current.take())")
        elif took == "None":
            rep.obligation(not pushes, "C03/R03.3/flush-empty", "flush pushes although there is no current member", where(fl))
    rep.instance(n)
