"""C10 — failure detection is complete with a bounded delay (DESIGN §3 C10)."""
import itertools
from fractions import Fraction as Fr
from ..core import sym, tables as T, orderenum as oe, callgraph, inventory as inv
from ..core.anchors import where
from ..roles import Roles, NS, SW, FD
from .. import models
from ..models import ModelError, F
from . import c11

LEVEL = "other"
EXPLANATION = (
    "The time bound itself is a real-arithmetic lemma (if every recorded interval is <= max_interval then the smoothed mean "
    "(sum + w*prior)/(n + w) <= max(max_interval, prior) for w > 0, hence elapsed > threshold*max(..) => phi > threshold => "
    "dead). The check decides that the code has the lemma's premises and shape: (R10.1) an interval is recorded only if a "
    "previous report exists and it is <= max_interval; (R10.2) the extracted terms of compute_mean and phi equal "
    "(sum + w*m)/(len + w) and elapsed/mean on a rational grid, phi is None for len = 0 / no heartbeat, w is a positive "
    "constant, prior/max_interval/window size flow from the same-named configuration fields; (R10.3) alive <=> phi is Some "
    "and phi <= threshold (None => dead) with the set effects of each branch; (R10.4) the bounded-window bookkeeping tables "
    "(append / clear / len); (R10.5) only fresh heartbeats are recorded (= C11/R11.1).")
TRUSTED = ["the lemma above (paper argument)", "Instant/Duration arithmetic; HashMap/HashSet semantics"]
ASSUMPTIONS = ["floating-point drift of the incrementally maintained sum is not analysed",
               "sampling_window_size >= 1 (a size of 0 makes the first append index out of bounds; outside the stated configurations)"]

BAS = "failure_detector::BoundedArrayStats"
ADS = "failure_detector::AdditiveSmoothing"


def run(ctx):
    rep = ctx.report
    fx = ctx.fx
    roles = Roles(fx)
    c11.r11_2(ctx, rep, roles, P="C10")
    ctx.report.rules[-1].id = "R10.1"
    r10_2(ctx, rep, roles)
    r10_3(ctx, rep, roles)
    r10_4(ctx, rep, roles)
    c11.r11_1(ctx, rep, roles, P="C10")
    ctx.report.rules[-1].id = "R10.5"
    from .. import wrappers
    wrappers.fd_glue(ctx, rep, roles, "C10", "R10.6")


def r10_2(ctx, rep, roles):
    r = rep.rule("R10.2", "formula shape: mean = (sum + w*prior)/(len + w); phi = elapsed/mean; parameters flow from the configuration")
    fx = ctx.fx
    cm = [f for f in fx.fns.values() if f.get("impl_self") == ADS and f.get("output") == "f64" and len(f.get("inputs", [])) == 3]
    eng = sym.Engine(fx)
    if len(cm) != 1:
        # the helper computing the mean has another shape (a parameter struct, a free function, inlined ...): the mean
        # formula is then decided only through phi below, which inlines whatever computes it, on the same kind of grid
        rep.count("mean-formula-decided-through-phi", 1)
        cm = None
    if cm is not None:
        cm = cm[0]
        rep.anchor("compute_mean", where(cm))
        rows = eng.table(cm["id"], arg_terms={1: ("ptr", ("S", "self"), ()), 2: ("obj", ("S", "len")), 3: ("obj", ("S", "sum"))})
        W = ("proj", ("obj", ("S", "self")), F(ADS, "prior_weight"))
        M = ("proj", ("obj", ("S", "self")), F(ADS, "prior_mean"))
        n = 0
        bad = None
        for row in rows:
            if row.exit != "return":
                continue
            for s_, w, m, ln in itertools.product((Fr(0), Fr(3, 2), Fr(7)), (Fr(5), Fr(1, 2)), (Fr(1), Fr(4)), (1, 3, 1000)):
                n += 1
                asg = {("obj", ("S", "sum")): s_, W: w, M: m, ("obj", ("S", "len")): ln}
                try:
                    got = oe.ev(row.ret, asg)
                except oe.NeedAtom as e:
                    bad = bad or "mean depends on %s" % sym.fmt(e.atom)[:80]
                    break
                want = (s_ + w * m) / (ln + w)
                if got != want:
                    bad = bad or "sum=%s w=%s prior=%s len=%s: mean=%s expected %s" % (s_, w, m, ln, got, want)
        rep.obligation(bad is None and n > 0, "C10/R10.2/mean-formula", "compute_mean: %s" % bad, where(cm), evaluations=n,
                       sample="mean == (sum + w*prior)/(len + w) on %d rational points" % n)
    # phi = elapsed / mean(len, sum) ; None otherwise
    ph = roles.sw_phi
    rep.anchor("phi", where(ph))
    rows = [x for x in eng.table(ph["id"], arg_terms={1: ("ptr", ("S", "self"), ())}) if x.exit == "return"]
    SELF = ("obj", ("S", "self"))
    IDX = ("proj", ("proj", SELF, F(SW, "intervals")), F(BAS, "index"))
    FILLED = ("proj", ("proj", SELF, F(SW, "intervals")), F(BAS, "is_filled"))
    SUM = ("proj", ("proj", SELF, F(SW, "intervals")), F(BAS, "sum"))
    W2 = ("proj", ("proj", SELF, F(SW, "additive_smoothing")), F(ADS, "prior_weight"))
    M2 = ("proj", ("proj", SELF, F(SW, "additive_smoothing")), F(ADS, "prior_mean"))
    n = 0
    bad = None
    n_some = 0
    for row in rows:
        if not sym.is_some(row.ret):
            continue
        n_some += 1
        t = row.ret[3][0][1]
        atoms = oe.atoms_of(t, [])
        el = [a for a in atoms if a[0] == "call" and a[1].endswith("as_secs_f64")]
        lens = [a for a in atoms if a[0] == "call" and a[1].endswith("::len")]
        ok = len(el) == 1
        if ok:
            # elapsed derives from last_heartbeat.elapsed()
            v = T.resolve_locals(eng, row.store, el[0][2][0])
            ok = v[0] == "call" and v[1].endswith("::elapsed") and T.mentions_field(v, SW, "last_heartbeat")
        if not ok:
            bad = bad or "phi's numerator is not last_heartbeat.elapsed()"
            continue
        for e_, s_, w, m, ln in itertools.product((Fr(0), Fr(9)), (Fr(1), Fr(6)), (Fr(5), Fr(1, 2)), (Fr(2), Fr(4)), (1, 4, 1000)):
            n += 1
            asg = {el[0]: e_, SUM: s_, W2: w, M2: m, IDX: ln, FILLED: False}
            for a in lens:
                asg[a] = ln
            try:
                got = oe.ev(t, asg)
            except oe.NeedAtom as e:
                bad = bad or "phi depends on %s" % sym.fmt(e.atom)[:80]
                break
            want = e_ / ((s_ + w * m) / (ln + w))
            if got != want:
                bad = bad or "phi=%s expected %s" % (got, want)
    rep.obligation(bad is None and n_some >= 1, "C10/R10.2/phi-formula", "phi: %s" % bad, where(ph), evaluations=n,
                   sample="phi == elapsed/((sum + w*prior)/(len + w))")
    # parameters
    nw = roles.sw_new
    rep.anchor("SamplingWindow::new", where(nw))
    rows = [x for x in eng.table(nw["id"], arg_terms={1: ("obj", ("S", "window_size")), 2: ("obj", ("S", "max_interval")), 3: ("obj", ("S", "prior"))}) if x.exit == "return"]
    for row in rows:
        t = row.ret
        ok = t[0] == "agg" and t[1] == SW
        if not ok:
            rep.obligation(False, "C10/R10.2/new-shape", "SamplingWindow::new returns %s" % sym.fmt(t)[:80], where(nw))
            continue
        rep.obligation(T.field(t, "max_interval") == ("obj", ("S", "max_interval")), "C10/R10.2/param/max_interval",
                       "window.max_interval := %s" % sym.fmt(T.field(t, "max_interval"))[:60], where(nw), sample="window.max_interval = max_interval argument")
        rep.obligation(T.field(t, "last_heartbeat") == sym.NONE, "C10/R10.2/param/last_heartbeat", "a new window starts with a heartbeat", where(nw),
                       sample="new window: last_heartbeat = None")
        ads = T.field(t, "additive_smoothing")
        pm = T.field(ads, "prior_mean") if ads and ads[0] == "agg" else None
        ok = pm is not None and pm[0] == "call" and pm[1].endswith("as_secs_f64")
        if ok:
            src = pm[2][0]
            v = eng.read_rp(models._St(row.store), src[1], src[2]) if src[0] == "ptr" else src
            ok = v == ("obj", ("S", "prior"))
        rep.obligation(ok, "C10/R10.2/param/prior_mean", "prior_mean := %s" % (sym.fmt(pm)[:60] if pm else None), where(nw),
                       sample="prior_mean = prior_interval.as_secs_f64()")
        pw = T.field(ads, "prior_weight") if ads and ads[0] == "agg" else None
        rep.obligation(pw is not None and pw[0] == "c" and pw[1] > 0, "C10/R10.2/param/prior_weight", "prior_weight := %s (must be a positive constant)" % (
            sym.fmt(pw) if pw else None), where(nw), sample="prior_weight = positive constant")
        iv = T.field(t, "intervals")
        ok = iv is not None and any(s == ("obj", ("S", "window_size")) for s in T.subterms(iv))
        rep.obligation(ok, "C10/R10.2/param/window_size", "the window capacity is %s" % (sym.fmt(iv)[:60] if iv else None), where(nw),
                       sample="capacity = window_size argument")
    # configuration -> new(..)
    gw = roles.fd_get_or_create_window
    CFG = "failure_detector::FailureDetectorConfig"
    found = 0
    eng3 = sym.Engine(fx, no_inline={nw["id"]})
    for row in eng3.table(gw["id"], arg_terms={1: ("ptr", ("S", "self"), ()), 2: ("ptr", ("S", "id"), ())}):
        clos = []
        for e in row.calls():
            clos += [a for a in e[2] if a[0] == "closure"]
        sites = [(row, e) for e in row.calls() if e[1] == nw["id"]]
        for clo in clos:
            st = sym.St()
            st.store = dict(row.store)
            for s2, retv in sym.call_closure(eng3, st, clo, [], 0, (gw["id"], 0)):
                class R2:  # minimal row view
                    events = s2.events
                sites += [(s2, e) for e in s2.events if e[0] == "call" and e[1] == nw["id"]]
        for _, e in sites:
            found += 1
            names = []
            for a in e[2]:
                lf = T.last_field(a)
                names.append(lf[1] if lf and lf[0] == CFG and T.mentions_field(a, FD, "config") else None)
            rep.obligation(names == ["sampling_window_size", "max_interval", "initial_interval"], "C10/R10.2/config-flow",
                           "SamplingWindow::new is given config fields %s" % names, where(gw),
                           sample="new(config.sampling_window_size, config.max_interval, config.initial_interval)")
    rep.floor("window-constructions", found, 1)
    rep.instance(n + found)


def r10_3(ctx, rep, roles, P="C10"):
    r = rep.rule("R10.3" if P == "C10" else "R12.1", "liveness decision: alive <=> phi is Some and phi <= threshold; set effects per branch")
    fx = ctx.fx
    try:
        lv = models.Liveness(fx, roles)
    except ModelError as e:
        rep.violation(P + "/R10.3/" + e.key, e.msg, e.where)
        return
    rep.anchor("update_node_liveness", where(lv.fn))
    phis = lv.phi_terms()
    if len(phis) != 1:
        rep.violation(P + "/R10.3/phi-source", "the liveness decision reads %d different phi values" % len(phis), where(lv.fn))
        return
    phi = phis[0]
    ok = phi[2][1] == ("ptr", ("S", "id"), ())
    rep.obligation(ok, P + "/R10.3/phi-of-member", "phi is computed for %s, not for the member being evaluated" % sym.fmt(phi[2][1])[:60], where(lv.fn),
                   sample="phi(member id)")
    payload = sym.proj(sym.proj(phi, ("v", "Some")), F(sym.OPTION, "0"))
    n = 0
    bad = None
    classes = set()
    for pv in (None, Fr(0), Fr(1), Fr(3, 2), Fr(2), Fr(9)):
        for thr in (Fr(1, 2), Fr(3, 2), Fr(8)):
            asg = {("discr", phi): "Some" if pv is not None else "None", lv.THR: thr}
            if pv is not None:
                asg[payload] = pv
            matched = 0
            for row in lv.rows:
                okrow = True
                for c in row.cond:
                    try:
                        if not oe.holds(c, asg):
                            okrow = False
                            break
                    except oe.NeedAtom:
                        continue
                if not okrow:
                    continue
                matched += 1
                n += 1
                li, lr, di, dr = lv.set_ops(row)
                alive = pv is not None and pv <= thr
                classes.add(alive)
                if alive:
                    good = len(li) == 1 and len(dr) == 1 and not lr and not di
                else:
                    contains = None
                    for c in row.cond:
                        if c[0] == "truth" and c[1][0] == "call" and "contains_key" in c[1][1] and (
                                c[1][2][0] == lv.DEAD or T.last_field(c[1][2][0]) == (FD, "dead_nodes")):
                            contains = c[2]
                    good = len(lr) == 1 and not li and not dr and (len(di) == (0 if contains else 1)) and contains is not None
                    # `dead_nodes.entry(id).or_insert_with(Instant::now)`: insert-if-absent in one call (never overwrites the time of death)
                    ent = [e for e in row.calls() if sym.strip_all_generics(e[1]).endswith("HashMap::entry") and e[2] and e[2][0] == lv.DEAD]
                    ori = [e for e in row.calls() if sym.strip_all_generics(e[1]).split("::")[-1] in ("or_insert_with", "or_insert") and "Entry" in e[1]]
                    if contains is None and len(ent) == 1 and len(ori) == 1 and not di:
                        src = T.resolve_locals(lv.eng, row.store, ori[0][2][0])
                        good = len(lr) == 1 and not li and not dr and src[0] == "call" and sym.strip_all_generics(src[1]).endswith("HashMap::entry") and src[2][0] == lv.DEAD
                        di = ent
                if not good:
                    bad = bad or "phi=%s threshold=%s: live+%d live-%d dead+%d dead-%d" % (pv, thr, len(li), len(lr), len(di), len(dr))
                for e in li + lr + di + dr:
                    key = e[2][1]
                    kv_ = lv.eng.read_rp(models._St(row.store), key[1], key[2]) if key[0] == "ptr" and key[1][0] == "L" else key
                    if not (key == ("ptr", ("S", "id"), ()) or kv_ == ("obj", ("S", "id")) or (kv_[0] == "agg" and T.mentions_field(kv_, "types::ChitchatId", "node_id"))):
                        bad = bad or "a set operation uses key %s" % sym.fmt(kv_)[:60]
            if matched == 0:
                bad = bad or "no path for phi=%s threshold=%s" % (pv, thr)
    rep.obligation(bad is None and classes == {True, False}, P + "/R10.3/decision", "liveness decision: %s" % bad, where(lv.fn), evaluations=n,
                   sample="alive iff phi=Some(p) and p <= threshold; live: live+ dead-; dead: live- and dead+ only if absent")
    rep.floor("liveness-rows", len(lv.rows), 3)
    rep.instance(len(lv.rows))


def r10_4(ctx, rep, roles):
    r = rep.rule("R10.4", "bounded window bookkeeping: append / clear / len tables")
    fx = ctx.fx
    meths = {f["id"].split("::")[-1]: f for f in fx.fns.values() if f.get("impl_self") == BAS and not f.get("impl_trait")}
    SELF = ("obj", ("S", "self"))
    IDX, FILLED, SUM = (("proj", SELF, F(BAS, n)) for n in ("index", "is_filled", "sum"))
    eng = sym.Engine(fx)
    ap = [f for f in meths.values() if f.get("inputs") == ["&mut " + BAS, "f64"]]
    ln = [f for f in meths.values() if f.get("inputs") == ["&" + BAS] and f.get("output") == "usize"]
    cl = [f for f in meths.values() if f.get("inputs") == ["&mut " + BAS] and f.get("output") == "()"]
    if not (len(ap) == 1 and len(ln) == 1 and len(cl) == 1):
        rep.violation("C10/R10.4/anchor", "cannot resolve append/len/clear of BoundedArrayStats", None)
        return
    ap, ln, cl = ap[0], ln[0], cl[0]
    rows = [x for x in eng.table(ap["id"], arg_terms={1: ("ptr", ("S", "self"), ()), 2: ("obj", ("S", "x"))}) if x.exit == "return"]
    X = ("obj", ("S", "x"))
    n = 0
    for row in rows:
        filled = None
        last = None
        for c in row.cond:
            if c[0] == "truth" and c[1] == FILLED:
                filled = c[2]
            if c[0] == "truth" and c[1][0] == "op" and c[1][1] == "Eq" and IDX in (c[1][2], c[1][3]):
                other = c[1][3] if c[1][2] == IDX else c[1][2]
                lens = [a for a in oe.atoms_of(other, []) if a[0] == "call" and a[1].endswith("::len")]
                if len(lens) == 1 and oe.ev(other, {lens[0]: 5}) == 4:
                    last = c[2]
        rep.obligation(filled is not None and last is not None, "C10/R10.4/append/cases", "append path not classified by is_filled / index == len-1: %s" % row.describe()["guard"],
                       where(ap))
        if filled is None or last is None:
            continue
        n += 1
        ws = row.writes()
        fin = {nm: eng.read_rp(models._St(row.store), ("S", "self"), (F(BAS, nm),)) for nm in ("index", "is_filled", "sum")}
        OLDV = [a for a in oe.atoms_of(fin["sum"], []) if a not in (SUM, X)]
        ok = True
        why = ""
        for s0, x, ov, i0 in itertools.product((Fr(0), Fr(5)), (Fr(1), Fr(3)), (Fr(2),), (0, 3)):
            asg = {SUM: s0, X: x, IDX: i0, FILLED: filled}
            for a in OLDV:
                asg[a] = ov
            try:
                sv = oe.ev(fin["sum"], asg)
                iv = oe.ev(fin["index"], asg)
                fv = oe.ev(fin["is_filled"], asg)
            except oe.NeedAtom as e:
                ok, why = False, "depends on %s" % sym.fmt(e.atom)[:60]
                break
            want_sum = s0 + x - (ov if filled else 0)
            if sv != want_sum:
                ok, why = False, "sum' = %s, expected %s (filled=%s)" % (sv, want_sum, filled)
            if iv != (0 if last else i0 + 1):
                ok, why = False, "index' = %s (last slot=%s)" % (iv, last)
            if fv != (True if last else filled):
                ok, why = False, "is_filled' = %s (last slot=%s, was %s)" % (fv, last, filled)
        stored = [e for e in ws if e[2] and e[2][-1] == ("i",) and e[3] == X]
        if not stored:
            # Vec<f64>: `self.values[i] = x` goes through IndexMut::index_mut(&mut self.values, i)
            for e in ws:
                root = e[1]
                if e[3] == X and root[0] == "D" and root[1][0] == "call" and sym.strip_all_generics(root[1][1]).split("::")[-1] == "index_mut" \
                        and T.mentions_field(T.resolve_locals(eng, row.store, root[1][2][0]), BAS, "values") and T.resolve_locals(eng, row.store, root[1][2][1]) == IDX:
                    stored.append(e)
        rep.obligation(ok and len(stored) == 1, "C10/R10.4/append/effects", "append(filled=%s,last=%s): %s%s" % (filled, last, why, "" if stored else " value not stored"),
                       where(ap), evaluations=8, sample="append filled=%s last-slot=%s: sum' = sum + x %s; index wraps; is_filled sticky" % (filled, last, "- evicted" if filled else ""))
    rep.floor("append-rows", n, 4)
    for row in eng.table(cl["id"], arg_terms={1: ("ptr", ("S", "self"), ())}):
        vals = {T.path_field(e[2]): e[3] for e in row.writes() if e[2] and e[2][-1][0] == "f"}
        ok = vals.get("index") == sym.C(0) and vals.get("is_filled") == sym.FALSE and vals.get("sum", ("x",))[0] == "c" and vals["sum"][1] == 0
        rep.obligation(ok, "C10/R10.4/clear", "clear sets %s" % {k: sym.fmt(v) for k, v in vals.items()}, where(cl), sample="clear: index=0, is_filled=false, sum=0")
    for row in eng.table(ln["id"], arg_terms={1: ("ptr", ("S", "self"), ())}):
        filled = None
        for c in row.cond:
            if c[0] == "truth" and c[1] == FILLED:
                filled = c[2]
        t = row.ret
        ok = (filled is False and t == IDX) or (filled is True and t[0] == "call" and t[1].endswith("::len") and T.mentions_field(t, BAS, "values"))
        rep.obligation(ok, "C10/R10.4/len", "len(filled=%s) = %s" % (filled, sym.fmt(t)[:60]), where(ln), sample="len = filled ? capacity : index")
    rep.instance(n + 3)
