"""check runner: python3 -m rules.main <PROPERTY> [quick|thorough]"""
import importlib, os, shutil, sys, time, traceback

from .core import facts as factsmod, runfacts, report as rep
from .core.anchors import AnchorLost
from .core.sym import Unanalysable


class Ctx:
    def __init__(self, prop, tier, report, facts_by_cfg):
        self.prop = prop
        self.tier = tier
        self.report = report
        self.facts_by_cfg = facts_by_cfg

    def configs(self):
        return list(self.facts_by_cfg.items())


FLOOR_FNS = 430  # functions+closures with MIR in crate `chitchat` (lib, default features) on the pinned tree


def load_config(name, features, report, repo=None):
    facts_dir, scratch, secs = runfacts.run(features=features, repo=repo)
    try:
        allf = factsmod.load_dir(facts_dir)
    finally:
        shutil.rmtree(scratch, ignore_errors=True)
    need = [("chitchat", "rlib"), ("chitchat_test", "rlib"), ("chitchat_test", "executable")]
    for k in need:
        if k not in allf:
            raise RuntimeError("facts for %s (%s) missing: the wrapper did not run on a workspace member" % k)
    fx = allf[("chitchat", "rlib")]
    report.configs.append({"config": name, "factgen_s": round(secs, 1), "functions": len(fx.fns),
                           "adts": len(fx.adts), "crates": ["%s(%s)" % k for k in sorted(allf)]})
    canon = {k: v for k, v in (("fields", fx.field_renames), ("variants", fx.variant_renames), ("paths", fx.path_renames)) if v}
    if canon:
        # renamed / moved private items were mapped back to the names the rules use (facts.py, paths.py); nothing is decided here
        report.configs[-1]["canonicalised"] = canon
    lost = [b for f in allf.values() for b in getattr(f, "stolen_bodies", [])]
    if lost:
        raise RuntimeError("factgen could not export %d bodies (MIR stolen before export): %s" % (len(lost), lost[:5]))
    if len(fx.fns) < FLOOR_FNS:
        raise RuntimeError("only %d bodies analysed in chitchat (floor %d)" % (len(fx.fns), FLOOR_FNS))
    return allf


def run_property(prop, tier, repo=None, seed=0, quiet=False, facts_by_cfg=None):
    mod = importlib.import_module("rules.props." + prop.lower())
    report = rep.Report(prop, tier, seed)
    cfgs = [("default", None)]
    if tier == "thorough":
        cfgs.append(("all-features", "all"))
    if facts_by_cfg is None:
        facts_by_cfg = {}
        for name, feat in cfgs:
            facts_by_cfg[name] = load_config(name, feat, report, repo=repo)
    ctx = Ctx(prop, tier, report, facts_by_cfg)
    for name, allf in facts_by_cfg.items():
        ctx.cfgname = name
        ctx.all = allf
        ctx.fx = allf[("chitchat", "rlib")]
        ctx.fx_testlib = allf[("chitchat_test", "rlib")]
        ctx.fx_bin = allf[("chitchat_test", "executable")]
        try:
            from .core import sym as _sym
            from . import adaptors
            _sym.ANALYSED_BODIES.clear()
            _sym.FUSED_ADAPTORS.clear()
            mod.run(ctx)
            adaptors.check(ctx, report, prop, set(_sym.ANALYSED_BODIES))
        except AnchorLost as e:
            report.rule("anchor", "anchor resolution")
            report.violation("%s/anchor-lost/%s" % (prop, e.role), "anchor lost: %s" % e)
        except Unanalysable as e:
            report.rule("engine", "table extraction")
            report.violation("%s/unanalysable" % prop, "the anchored code left the analysable fragment: %s" % e)
    return report, mod


WITNESS_PROPS = {"C05": ("ProcessMessageIsPrivate", "ClusterStateIsPrivate", "NoForeignMutableCopy", "ClusterStateTypeIsPrivate", "IncHeartbeatIsPrivate"),
                 "C12": ("LivenessEvaluationIsPrivate", "FailureDetectorIsPrivate"), "C13": ("WatchSenderIsPrivate",),
                 "C10": ("FailureDetectorIsPrivate",), "C11": ("FailureDetectorIsPrivate",), "C15": ("ListenerRegistryIsPrivate",),
                 "C06": ("NodeStateGcIsPrivate",), "C02": ("VerbatimStoreIsPrivate",), "C14": ("VerbatimStoreIsPrivate",)}


def thorough_extras(prop, report):
    """thorough tier: rule liveness self-test (seeded mutants on scratch copies) and E3 compile-fail witnesses"""
    import subprocess, re
    from . import selftest
    from concurrent.futures import ProcessPoolExecutor
    if not os.path.isdir(runfacts.CACHE):
        runfacts.warm_cache()      # otherwise every scratch copy below rebuilds the dependencies
    ms = selftest.load_mutants(prop)
    res = []
    if ms:
        with ProcessPoolExecutor(max_workers=min(12, len(ms))) as ex:
            res = list(ex.map(selftest.run_mutant, ms))
    summary = {"fired": [r[0] for r in res if r[1].startswith("fired")], "silent_ok": [r[0] for r in res if r[1] == "silent-ok"],
               "skipped": [r[0] for r in res if r[1] == "skipped"], "missed": [r[0] for r in res if r[1] == "MISSED"],
               "false_alarm": [r[0] for r in res if r[1] == "FALSE-ALARM"], "error": [r[0] for r in res if r[1] == "error"]}
    report.extra["selftest"] = summary
    print("self-test %s: %d mutants fired, %d behaviour-preserving edits silent, %d skipped, %d missed, %d false alarms" % (
        prop, len(summary["fired"]), len(summary["silent_ok"]), len(summary["skipped"]), len(summary["missed"]), len(summary["false_alarm"])))
    # the kept seeded changes written against this property must be reported by this check; the independent behaviour-preserving
    # refactorings must not be (scratch copies of /repo; /repo is never modified)
    import glob, json as _json, shutil as _sh
    seeds = []
    for mp in sorted(glob.glob(os.path.join(rep.VERIF, "seeded", "*", "meta.json"))):
        try:
            if _json.load(open(mp)).get("property") == prop:
                seeds.append(os.path.join(os.path.dirname(mp), "patch.diff"))
        except Exception:
            pass
    refs = []
    known_limits = []
    for p_ in sorted(glob.glob(os.path.join(rep.VERIF, "refactors_ext", "*", "patch.diff"))):
        try:
            kfa = _json.load(open(os.path.join(os.path.dirname(p_), "meta.json"))).get("known_false_alarm")
        except Exception:
            kfa = None
        (known_limits if kfa else refs).append(p_)
    jobs = [{"id": "seed:" + os.path.basename(os.path.dirname(p_)), "patch": p_, "property": prop, "expect": "/"} for p_ in seeds] + \
           [{"id": "refactor:" + os.path.basename(os.path.dirname(p_)), "patch": p_, "property": prop, "expect_silent": True} for p_ in refs]
    if jobs:
        with ProcessPoolExecutor(max_workers=min(12, len(jobs))) as ex:
            res2 = list(ex.map(selftest.run_mutant, jobs))
        seeds_fired = [x[0] for x in res2 if x[0].startswith("seed:") and x[1].startswith("fired")]
        seeds_missed = [x[0] for x in res2 if x[0].startswith("seed:") and not x[1].startswith("fired")]
        refs_silent = [x[0] for x in res2 if x[0].startswith("refactor:") and x[1] == "silent-ok"]
        refs_alarm = [(x[0], x[2]) for x in res2 if x[0].startswith("refactor:") and x[1] != "silent-ok"]
        report.extra["seeds"] = {"reported": seeds_fired, "missed": seeds_missed}
        report.extra["refactorings"] = {"silent": len(refs_silent), "alarms": refs_alarm,
                                        "documented_limitations_not_replayed": [os.path.basename(os.path.dirname(x)) for x in known_limits]}
        r = report.rule("E4", "replay: the confirmed seeded changes written against this property are reported; the 40 independent "
                              "behaviour-preserving refactorings are not")
        report.obligation(not seeds_missed, "%s/E4/seed-not-reported" % prop, "seeded changes not reported: %s" % seeds_missed, None,
                          sample="%d seeded changes reported" % len(seeds_fired))
        report.obligation(not refs_alarm, "%s/E4/refactoring-reported" % prop, "behaviour-preserving refactorings reported (false alarms): %s" % refs_alarm[:3], None,
                          sample="%d refactorings silent" % len(refs_silent))
        report.instance(len(jobs))
        print("replay %s: %d/%d seeded changes reported, %d/%d refactorings silent" % (prop, len(seeds_fired), len(seeds), len(refs_silent), len(refs)))
    if prop in WITNESS_PROPS:
        r = report.rule("E3", "compile-fail witnesses (external crate cannot name/call the internal mutators) with compiling twins")
        out = subprocess.run([os.path.join(rep.VERIF, "witness", "run.sh")], stdout=subprocess.PIPE, stderr=subprocess.STDOUT).stdout.decode(errors="replace")
        names = WITNESS_PROPS[prop]
        for nm in names:
            lines = [l for l in out.splitlines() if " - %s " % nm in l]
            ok = len(lines) >= 2 and all(l.rstrip().endswith("ok") for l in lines)
            report.obligation(ok, "%s/E3/witness/%s" % (prop, nm), "witness %s: %s" % (nm, [l[-60:] for l in lines] or out[-300:]), None,
                              sample="%s: compile_fail with the expected error code + compiling twin" % nm)
        report.instance(len(names))


def main(argv):
    prop = argv[1].upper()
    tier = argv[2] if len(argv) > 2 else os.environ.get("VERIF_TIER", "quick")
    seed = int(os.environ.get("VERIF_SEED", "0") or 0)
    try:
        report, mod = run_property(prop, tier, seed=seed)
        if tier == "thorough":
            thorough_extras(prop, report)
    except Exception as e:
        traceback.print_exc()
        report = rep.Report(prop, tier, seed)
        report.rule("runner", "fact generation / rule execution")
        report.violation("%s/runner-error" % prop, "check could not complete: %r" % (e,))
        mod = None
    level = getattr(mod, "LEVEL", "other") if mod else "other"
    expl = getattr(mod, "EXPLANATION", "static rules over mir_built facts") if mod else "runner failed"
    tb = getattr(mod, "TRUSTED", []) if mod else []
    for a in getattr(mod, "ASSUMPTIONS", []) if mod else []:
        report.assume(a)
    code = rep.finish(report, level, expl, COMMON_TRUSTED + list(tb), "./check %s %s" % (prop, tier))
    return code


COMMON_TRUSTED = [
    "rustc nightly: mir_built, Instance::try_resolve, type/visibility queries (facts = debug-profile MIR of the nightly compiler)",
    "factgen JSON export (/verif/factgen) and the Python rule engine (/verif/rules/core)",
    "callee summary table in rules/core/sym.py (std comparison/Option/clone helpers)",
]

if __name__ == "__main__":
    sys.exit(main(sys.argv))
