"""check runner: python3 -m rules.main <PROPERTY> [quick|thorough]"""
import importlib, os, shutil, sys, time, traceback

from .core import facts as factsmod, runfacts, report as rep
from .core.anchors import AnchorLost
from .core.sym import Unanalysable


class Ctx:
    def __init__(self, prop, tier, report, facts_by_cfg):
        self.prop = prop
        self.tier = tier
        self.report = report
        self.facts_by_cfg = facts_by_cfg

    def configs(self):
        return list(self.facts_by_cfg.items())


FLOOR_FNS = 430  # functions+closures with MIR in crate `chitchat` (lib, default features) on the pinned tree


def load_config(name, features, report, repo=None):
    facts_dir, scratch, secs = runfacts.run(features=features, repo=repo)
    try:
        allf = factsmod.load_dir(facts_dir)
    finally:
        shutil.rmtree(scratch, ignore_errors=True)
    need = [("chitchat", "rlib"), ("chitchat_test", "rlib"), ("chitchat_test", "executable")]
    for k in need:
        if k not in allf:
            raise RuntimeError("facts for %s (%s) missing: the wrapper did not run on a workspace member" % k)
    fx = allf[("chitchat", "rlib")]
    report.configs.append({"config": name, "factgen_s": round(secs, 1), "functions": len(fx.fns),
                           "adts": len(fx.adts), "crates": ["%s(%s)" % k for k in sorted(allf)]})
    if len(fx.fns) < FLOOR_FNS:
        raise RuntimeError("only %d bodies analysed in chitchat (floor %d)" % (len(fx.fns), FLOOR_FNS))
    return allf


def run_property(prop, tier, repo=None, seed=0, quiet=False):
    mod = importlib.import_module("rules.props." + prop.lower())
    report = rep.Report(prop, tier, seed)
    cfgs = [("default", None)]
    if tier == "thorough":
        cfgs.append(("all-features", "all"))
    facts_by_cfg = {}
    for name, feat in cfgs:
        facts_by_cfg[name] = load_config(name, feat, report, repo=repo)
    ctx = Ctx(prop, tier, report, facts_by_cfg)
    for name, allf in facts_by_cfg.items():
        ctx.cfgname = name
        ctx.all = allf
        ctx.fx = allf[("chitchat", "rlib")]
        ctx.fx_testlib = allf[("chitchat_test", "rlib")]
        ctx.fx_bin = allf[("chitchat_test", "executable")]
        try:
            mod.run(ctx)
        except AnchorLost as e:
            report.rule("anchor", "anchor resolution")
            report.violation("%s/anchor-lost/%s" % (prop, e.role), "anchor lost: %s" % e)
        except Unanalysable as e:
            report.rule("engine", "table extraction")
            report.violation("%s/unanalysable" % prop, "the anchored code left the analysable fragment: %s" % e)
    return report, mod


def main(argv):
    prop = argv[1].upper()
    tier = argv[2] if len(argv) > 2 else os.environ.get("VERIF_TIER", "quick")
    seed = int(os.environ.get("VERIF_SEED", "0") or 0)
    try:
        report, mod = run_property(prop, tier, seed=seed)
        if tier == "thorough" and hasattr(mod, "thorough"):
            mod.thorough(report)
    except Exception as e:
        traceback.print_exc()
        report = rep.Report(prop, tier, seed)
        report.rule("runner", "fact generation / rule execution")
        report.violation("%s/runner-error" % prop, "check could not complete: %r" % (e,))
        mod = None
    level = getattr(mod, "LEVEL", "other") if mod else "other"
    expl = getattr(mod, "EXPLANATION", "static rules over mir_built facts") if mod else "runner failed"
    tb = getattr(mod, "TRUSTED", []) if mod else []
    for a in getattr(mod, "ASSUMPTIONS", []) if mod else []:
        report.assume(a)
    code = rep.finish(report, level, expl, COMMON_TRUSTED + list(tb), "./check %s %s" % (prop, tier))
    return code


COMMON_TRUSTED = [
    "rustc nightly: mir_built, Instance::try_resolve, type/visibility queries (facts = debug-profile MIR of the nightly compiler)",
    "factgen JSON export (/verif/factgen) and the Python rule engine (/verif/rules/core)",
    "callee summary table in rules/core/sym.py (std comparison/Option/clone helpers)",
]

if __name__ == "__main__":
    sys.exit(main(sys.argv))
