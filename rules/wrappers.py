"""Thin wrappers, accessors and small helpers the properties silently lean on.

The decision rules of the property modules start at the "interesting" function (NodeState::gc_keys_marked_for_deletion,
SamplingWindow::phi, InnerListeners::trigger_event, ...).  Between the public API / the gossip loop and those functions sit
one-line forwarders (Chitchat::dead_nodes -> FailureDetector::dead_nodes -> HashMap::keys, Chitchat::gc -> ClusterState::gc
-> NodeState::gc for every member, FailureDetector::phi -> SamplingWindow::phi, ...).  A change in a forwarder (a filter on
an accessor, a halved grace period, a default value for an unknown member) breaks the property without touching anything the
decision rules look at.  The rules below pin each forwarder: on every returning path of its decision table the crate-local
calls are exactly the expected delegates with the expected arguments (own parameters / own fields, unchanged), the library
calls are exactly the expected glue (so an added iterator adaptor is seen), and the result is the delegate's result.
Forwarders are anchored like roles: impl type + signature, the name only breaks ties."""
from .core import sym, tables as T, anchors as A, callgraph
from .core.anchors import where, AnchorLost
from .roles import NS, CS, CH, FD, SW

LI = "listener::Listeners"
ILI = "listener::InnerListeners"
ITER_IDS = "impl std::iter::Iterator<Item = &types::ChitchatId>"


def short(name):
    n = name
    for p in ("havoc:", "fold:"):
        if n.startswith(p):
            n = n[len(p):]
    return sym.strip_all_generics(n).split("::")[-1]


def table(fx, f, keep=()):
    """rows of f with every other crate function left opaque"""
    eng = sym.Engine(fx, no_inline=set(fx.fns) - {f["id"]} - set(keep))
    return eng, eng.table(f["id"])


def local_calls(fx, row):
    return [e for e in row.events if e[0] == "call" and e[1] in fx.fns]


def lib_calls(fx, row):
    return [e for e in row.events if e[0] == "call" and e[1] not in fx.fns]


def fargs(e, eng=None, row=None):
    """formatted arguments; with (eng, row) pointers to frame locals are replaced by what they point to, so that the text does
    not depend on MIR local numbering"""
    if eng is not None:
        return [sym.fmt(T.resolve_locals(eng, row.store, a)) for a in e[2]]
    return [sym.fmt(a) for a in e[2]]


def fret(eng, row):
    return sym.fmt(T.resolve_locals(eng, row.store, row.ret)) if row.ret is not None else None


class W:
    """one forwarder obligation set"""

    def __init__(self, rep, P, rule, fx):
        self.rep, self.P, self.rule, self.fx = rep, P, rule, fx
        self.n = 0

    def key(self, f, what):
        return "%s/%s/%s/%s" % (self.P, self.rule, f["id"].split("::")[-1] if not f["id"].startswith("<") else short(f["id"]) + "@" + (f.get("impl_self") or "?").split("::")[-1], what)

    def forward(self, f, delegates, lib=(), ret="last", why="", paths=1, lib_any_order=False):
        """f forwards to `delegates` = [(callee fn dict, [formatted args])] on its single returning path; library calls are
        exactly `lib` (short names, in order); ret: 'last' = result of the last delegate (possibly re-borrowed), 'unit', or a
        formatted term"""
        fx, rep = self.fx, self.rep
        eng, rows = table(fx, f)
        rets = [r for r in rows if r.exit == "return"]
        others = [r for r in rows if r.exit not in ("return",)]
        self.n += 1
        rep.obligation(len(rets) == paths and not others, self.key(f, "paths"), "%s has %d returning paths and %d other exits (a forwarder has %d and none); %s" % (
            f["id"], len(rets), len(others), paths, why), where(f), sample="%s: %d path(s), no other exit" % (f["id"], paths))
        for row in rets:
            lc = local_calls(fx, row)
            got = [(e[1], fargs(e, eng, row)) for e in lc]
            want = [(d["id"], a) for d, a in delegates]
            self.n += 1
            rep.obligation(got == want, self.key(f, "delegate"), "%s calls %s, expected %s; %s" % (f["id"], got, want, why), where(f),
                           sample="%s -> %s" % (f["id"].split("::")[-1], ", ".join("%s(%s)" % (d.split("::")[-1], ", ".join(a)) for d, a in want) or "no crate call"))
            ll = [short(e[1]) for e in lib_calls(fx, row)]
            ok = sorted(ll) == sorted(lib) if lib_any_order else ll == list(lib)
            self.n += 1
            rep.obligation(ok, self.key(f, "glue"), "%s makes the library calls %s, expected %s (an added adaptor / conversion changes what is forwarded); %s" % (
                f["id"], ll, list(lib), why), where(f), sample="%s: library calls %s" % (f["id"].split("::")[-1], list(lib)))
            r = fret(eng, row)
            if ret == "unit":
                ok = row.ret is None or row.ret == ("c", None)
            elif ret == "last":
                last = lc[-1] if lc else (lib_calls(fx, row)[-1] if lib_calls(fx, row) else None)
                t = T.resolve_locals(eng, row.store, row.ret) if row.ret is not None else None
                ok = last is not None and t is not None and _is_result_of(t, last)
            else:
                ok = r == ret
            self.n += 1
            rep.obligation(ok, self.key(f, "result"), "%s returns %s (expected: %s); %s" % (f["id"], (r or "")[:160], ret, why), where(f),
                           sample="%s returns %s" % (f["id"].split("::")[-1], "the delegate's result" if ret == "last" else ret))


def _is_result_of(t, call_event):
    """t is the call's result, possibly re-borrowed (&*r)"""
    while True:
        if t[0] == "call" and t[1] == call_event[1] and len(t[2]) == len(call_event[2]):
            return True
        if t[0] == "ptr" and t[1][0] == "D" and not t[2]:
            t = t[1][1]
            continue
        return False


def _m(fx, role, self_ty, inputs, output, hint, trait=None):
    return A.method(fx, role, self_ty, inputs, output, hint=hint, trait=trait)


# ------------------------------------------------------------------------------------------------ membership accessors
def accessors(ctx, rep, roles, P, rule="RW.1"):
    rep.rule(rule, "membership accessors forward unchanged: Chitchat::{live,dead,scheduled_for_deletion}_nodes -> FailureDetector -> the set itself")
    fx = ctx.fx
    w = W(rep, P, rule, fx)
    ch_dead = _m(fx, "chitchat_dead_nodes", CH, ["&Chitchat"], ITER_IDS, "dead_nodes")
    ch_live = _m(fx, "chitchat_live_nodes", CH, ["&Chitchat"], ITER_IDS, "live_nodes")
    ch_sched = _m(fx, "chitchat_scheduled", CH, ["&Chitchat"], ITER_IDS, "scheduled_for_deletion_nodes")
    fd_dead = _m(fx, "fd_dead_nodes", FD, ["&" + FD], ITER_IDS, "dead_nodes")
    fd_live = _m(fx, "fd_live_nodes", FD, ["&" + FD], ITER_IDS, "live_nodes")
    fd_sched = roles.fd_scheduled
    self_id = _m(fx, "self_chitchat_id", CH, ["&Chitchat"], "&types::ChitchatId", "self_chitchat_id")
    w.forward(ch_dead, [(fd_dead, ["&self.failure_detector"])], why="the dead pool of a gossip round and the public dead set")
    w.forward(ch_sched, [(fd_sched, ["&self.failure_detector"])], why="the exclusion set of every digest and delta")
    w.forward(fd_dead, [], lib=["keys"], why="every member in dead_nodes is reported dead")
    w.forward(fd_live, [], lib=["iter"], why="every member in live_nodes is reported live")
    # live = once(self) chained with the detector's live set
    eng, rows = table(fx, ch_live)
    rets = [r for r in rows if r.exit == "return"]
    ok = len(rets) == 1 and len(rows) == 1
    if ok:
        row = rets[0]
        got = [(e[1], fargs(e, eng, row)) for e in local_calls(fx, row)]
        ll = [short(e[1]) for e in lib_calls(fx, row)]
        ok = got == [(self_id["id"], ["&self"]), (fd_live["id"], ["&self.failure_detector"])] and ll == ["once", "chain"]
        t = T.resolve_locals(eng, row.store, row.ret)
        ok = ok and t[0] == "call" and short(t[1]) == "chain" and [a[0] == "call" and short(a[1]) for a in t[2]] == ["once", "live_nodes"]
    w.n += 1
    rep.obligation(ok, w.key(ch_live, "shape"), "Chitchat::live_nodes is no longer once(self id) chained with the failure detector's live set", where(ch_live),
                   sample="live_nodes = once(self) ++ failure_detector.live_nodes()")
    rep.floor("forwarder-obligations", w.n, 17)
    rep.instance(w.n)


# ------------------------------------------------------------------------------------------------ tombstone GC entry chain
def gc_chain(ctx, rep, roles, P, rule="RW.2"):
    rep.rule(rule, "GC entry chain: Chitchat::gc passes the configured grace period; ClusterState::gc visits every member copy with it")
    fx = ctx.fx
    w = W(rep, P, rule, fx)
    top, mid, leaf = roles.chitchat_gc_keys, roles.cs_gc, roles.ns_gc
    w.forward(top, [(mid, ["&self.cluster_state", "self.config.marked_for_deletion_grace_period"])], ret="unit",
              why="the grace period of tombstone GC is the configured one")
    eng, rows = table(fx, mid)
    body = [r for r in rows if r.exit == "backedge"]
    done = [r for r in rows if r.exit == "return"]
    other = [r for r in rows if r.exit not in ("backedge", "return")]
    grace = fx.fns[mid["id"]].get("params", [None, None])
    w.n += 1
    rep.obligation(len(body) == 1 and len(done) == 1 and not other, w.key(mid, "loop"), "ClusterState::gc has %d loop-body paths, %d exits, %d other (expected one unconditional body)" % (
        len(body), len(done), len(other)), where(mid), sample="for every member copy: one unconditional body path")
    for row in body:
        lc = local_calls(fx, row)
        ok = len(lc) == 1 and lc[0][1] == leaf["id"] and len(lc[0][2]) == 2 and lc[0][2][1][0] == "obj" and lc[0][2][1][1][0] == "S"
        elem = lc[0][2][0] if lc else None
        from_next = elem is not None and any(s[0] == "call" and short(s[1]) == "next" for s in T.subterms(elem))
        w.n += 1
        rep.obligation(ok and from_next, w.key(mid, "body"), "loop body calls %s" % [(e[1], fargs(e)) for e in lc], where(mid),
                       sample="body: NodeState::gc(<each member copy>, <own grace-period parameter>)")
        ll = [short(e[1]) for e in lib_calls(fx, row)]
        w.n += 1
        rep.obligation(ll == ["values_mut", "into_iter", "next"], w.key(mid, "iteration"), "iteration glue is %s (expected values_mut / into_iter / next: every member, no filter)" % ll,
                       where(mid), sample="iterates node_states.values_mut() without adaptor")
        src = [e for e in lib_calls(fx, row) if short(e[1]) == "values_mut"]
        w.n += 1
        rep.obligation(bool(src) and fargs(src[0], eng, row) == ["&self.node_states"], w.key(mid, "source"), "iterates %s" % (fargs(src[0]) if src else None), where(mid),
                       sample="source: self.node_states")
    rep.floor("forwarder-obligations", w.n, 8)
    rep.instance(w.n)


# ------------------------------------------------------------------------------------------------ failure detector glue
def fd_glue(ctx, rep, roles, P, rule="RW.3"):
    rep.rule(rule, "failure-detector glue: FailureDetector::phi is the member's window phi (None when no window); report_heartbeat records into the member's window")
    fx = ctx.fx
    w = W(rep, P, rule, fx)
    f = roles.fd_phi
    eng, rows = table(fx, f)
    rets = [r for r in rows if r.exit == "return"]
    w.n += 1
    rep.obligation(len(rets) == 2 and len(rows) == 2, w.key(f, "paths"), "FailureDetector::phi has %d paths (expected: window missing / present)" % len(rows), where(f),
                   sample="phi: two paths")
    seen = set()
    for row in rets:
        present = None
        for c in row.cond:
            if c[0] == "variant" and c[1][0] == "call" and short(c[1][1]) == "get" and c[3]:
                present = c[2] == "Some"
                g = c[1]
                okg = [sym.fmt(a) for a in g[2]] == ["&self.node_samples", "&chitchat_id"]
                if not okg and f.get("reshaped"):
                    # a free function over the sample map: it looks its last parameter up in its first, and every caller hands
                    # it the failure detector's own sample map
                    names = [dv.get("name") for dv in sorted(f.get("debug") or [], key=lambda d: d.get("arg") or 99) if dv.get("arg")]
                    okg = len(names) == 2 and [sym.fmt(a) for a in g[2]] == ["&" + names[0], "&" + names[1]]
                    for cs in callgraph.CallGraph(fx).callers_of(f["id"]):
                        ce, crows = table(fx, fx.fns[fx.root_fn(cs.real_caller)])
                        for crow in crows:
                            for e in crow.calls():
                                if e[1] == f["id"]:
                                    okg = okg and fargs(e, ce, crow)[:1] == ["&self.node_samples"]
                w.n += 1
                rep.obligation(okg, w.key(f, "lookup"), "phi looks up %s" % [sym.fmt(a) for a in g[2]], where(f), sample="lookup: node_samples.get(id)")
        seen.add(present)
        lc = local_calls(fx, row)
        t = T.resolve_locals(eng, row.store, row.ret)
        if present:
            ok = len(lc) == 1 and lc[0][1] == roles.sw_phi["id"] and _is_result_of(t, lc[0]) and any(
                s[0] == "call" and short(s[1]) == "get" for s in T.subterms(lc[0][2][0]))
            w.n += 1
            rep.obligation(ok, w.key(f, "present"), "window present: calls %s, returns %s" % ([(e[1], fargs(e)) for e in lc], sym.fmt(t)[:120]), where(f),
                           sample="window present -> SamplingWindow::phi(that window), unchanged")
        elif present is False:
            ok = not lc and t == ("agg", "std::option::Option", "None", ())
            w.n += 1
            rep.obligation(ok, w.key(f, "absent"), "window absent: calls %s, returns %s" % ([(e[1]) for e in lc], sym.fmt(t)[:80]), where(f),
                           sample="window absent -> None")
    w.n += 1
    rep.obligation(seen == {True, False}, w.key(f, "cases"), "phi cases seen: %s" % sorted(map(str, seen)), where(f))
    g = roles.fd_report_heartbeat
    goc = roles.fd_get_or_create_window
    w.forward(g, [(goc, ["&self", "&chitchat_id"]), (roles.sw_report_heartbeat, ["&*(%s(&self, &chitchat_id)#0)" % _disp(goc["id"])])], ret="unit",
              why="a fresh heartbeat is recorded in the reporting member's own window")
    rep.floor("forwarder-obligations", w.n, 10)
    rep.instance(w.n)


def _disp(fid):
    """how sym.fmt prints a call to fid"""
    return sym.fmt(("call", fid, (), 0)).split("(")[0]


# ------------------------------------------------------------------------------------------------ heartbeat increment
def heartbeat_inc(ctx, rep, roles, P, rule="RW.4"):
    rep.rule(rule, "own heartbeat advances by exactly one per activity: inc_heartbeat -> Heartbeat::inc -> value + 1")
    fx = ctx.fx
    w = W(rep, P, rule, fx)
    ns_inc = _m(fx, "ns_inc_heartbeat", NS, ["&mut " + NS], "()", "inc_heartbeat")
    hb_inc = _m(fx, "heartbeat_inc", "types::Heartbeat", ["&mut types::Heartbeat"], "()", "inc")
    w.forward(ns_inc, [(hb_inc, ["&self.heartbeat"])], ret="unit", why="own heartbeat")
    eng, rows = table(fx, hb_inc)
    rets = [r for r in rows if r.exit == "return"]
    ok = bool(rets)
    for row in rets:
        ws = [e for e in row.writes() if e[1] == ("S", "self")]
        if len(ws) != 1:
            ok = False
            continue
        v = T.resolve_locals(eng, row.store, ws[0][3])
        # value + 1, either checked_add(value, 1) unwrapped or a plain (overflow-checked) Add
        cur = sym.fmt(("proj", ("obj", ("S", "self")), ("f", "types::Heartbeat", "0")))
        adds = [s for s in T.subterms(v) if (s[0] == "call" and short(s[1]) in ("checked_add",) and [sym.fmt(a) for a in s[2]] == [cur, "1"]) or (
            s[0] == "op" and s[1] in ("Add", "AddWithOverflow") and sorted([sym.fmt(s[2]), sym.fmt(s[3])]) == sorted([cur, "1"]))]
        calls = {short(s[1]) for s in T.subterms(v) if s[0] == "call"}
        if not adds or not calls <= {"checked_add", "expect", "unwrap"}:
            ok = False
    w.n += 1
    rep.obligation(ok, w.key(hb_inc, "plus-one"), "Heartbeat::inc does not store value + 1 on every path", where(hb_inc), sample="Heartbeat::inc: self.0 := self.0 + 1 (overflow aborts)")
    rep.floor("forwarder-obligations", w.n, 5)
    rep.instance(w.n)


# ------------------------------------------------------------------------------------------------ contains_key
def contains_key(ctx, rep, roles, P, rule="RW.5"):
    rep.rule(rule, "contains_key(k) <=> get(k) is Some; num_key_values counts key_values()")
    fx = ctx.fx
    w = W(rep, P, rule, fx)
    ck = _m(fx, "ns_contains_key", NS, ["&" + NS, "&str"], "bool", "contains_key")
    get = _m(fx, "ns_get", NS, ["&" + NS, "&str"], "std::option::Option<&str>", "get")
    eng, rows = table(fx, ck)
    seen = {}
    for row in rows:
        lc = local_calls(fx, row)
        ok = row.exit == "return" and [(e[1], fargs(e, eng, row)) for e in lc] == [(get["id"], ["&self", "&key"])]
        v = None
        for c in row.cond:
            if c[0] == "variant" and c[1][0] == "call" and c[1][1] == get["id"] and c[3]:
                v = c[2]
        t = T.resolve_locals(eng, row.store, row.ret) if row.ret is not None else None
        if t == sym.TRUE or t == sym.FALSE:
            seen[v] = (t == sym.TRUE) and ok
        elif t is not None and t[0] == "call" and short(t[1]) == "is_some" and ok:
            seen["Some"], seen["None"] = True, False
        else:
            seen[v] = None
    w.n += 1
    rep.obligation(seen.get("Some") is True and seen.get("None") is False, w.key(ck, "table"), "contains_key table: %s" % seen, where(ck),
                   sample="contains_key: get = Some -> true, None -> false")
    rep.floor("forwarder-obligations", w.n, 1)
    rep.instance(w.n)


# ------------------------------------------------------------------------------------------------ listener registry wrappers
def listeners(ctx, rep, roles, P, rule="RW.6"):
    rep.rule(rule, "listener wrappers forward unchanged: Chitchat::subscribe_event -> Listeners::subscribe_event -> registry; Listeners::trigger_event -> InnerListeners::trigger_event")
    fx = ctx.fx
    w = W(rep, P, rule, fx)
    EV = "KeyChangeEvent<'_>"
    trig = _m(fx, "listeners_trigger", LI, ["&mut " + LI, EV], "()", "trigger_event")
    itrig = _m(fx, "inner_trigger", ILI, ["&" + ILI, EV], "()", "trigger_event")
    cand = [f for f in fx.fns.values() if f.get("impl_self") == LI and f["kind"] == "method" and (f.get("output") or "") == "listener::ListenerHandle"]
    outer = [f for f in cand if (f.get("inputs") or [None, None])[1] == "impl ToString"]
    mono = [f for f in cand if (f.get("inputs") or [None, None])[1] == "std::string::String"]
    chs = [f for f in fx.fns.values() if f.get("impl_self") == CH and f["kind"] == "method" and (f.get("output") or "") == "listener::ListenerHandle"]
    if len(outer) != 1 or len(mono) != 1 or len(chs) != 1:
        raise AnchorLost("listener-wrappers", "subscribe wrappers: %d outer, %d inner, %d on Chitchat" % (len(outer), len(mono), len(chs)))
    outer, mono, chs = outer[0], mono[0], chs[0]
    cs_acc = _m(fx, "chitchat_cluster_state", CH, ["&Chitchat"], "&state::ClusterState", "cluster_state")
    # trigger: the event goes to the registry unconditionally and unchanged
    eng, rows = table(fx, trig)
    rets = [r for r in rows if r.exit == "return"]
    ok = len(rets) == 1
    if ok:
        lc = local_calls(fx, rets[0])
        ok = len(lc) == 1 and lc[0][1] == itrig["id"] and sym.fmt(lc[0][2][1]) == "key_change_event" and not [c for c in rets[0].cond if c[0] != "variant"]
    w.n += 1
    rep.obligation(ok, w.key(trig, "forward"), "Listeners::trigger_event does not forward the event unconditionally and unchanged", where(trig),
                   sample="Listeners::trigger_event -> InnerListeners::trigger_event(event) under the read lock")
    panics = [r for r in rows if r.exit not in ("return",)]
    w.n += 1
    rep.obligation(all(any(short(e[1]) == "unwrap" for e in r.calls()) for r in panics), w.key(trig, "exits"),
                   "Listeners::trigger_event has a non-returning path other than lock poisoning", where(trig), sample="only other exit: poisoned lock")
    w.forward(outer, [(mono, ["&self", "ToString::to_string(key_prefix)#0", "<T>::new(callback)#0"])], lib=["to_string", "new"], why="prefix and callback registered as given")
    w.forward(chs, [(cs_acc, ["&self"]), (outer, ["&*(%s(&self)#0).listeners" % _disp(cs_acc["id"]), "key_prefix", "callback"])],
              why="subscriptions go to the cluster state's registry (the one every member copy carries, R15.5)")
    rep.floor("forwarder-obligations", w.n, 10)
    rep.instance(w.n)


# ------------------------------------------------------------------------------------------------ transient receive errors
def transient_errors(ctx, rep, roles, P, rule="RW.7"):
    rep.rule(rule, "receive-error classification: ConnectionRefused / ConnectionReset (an unreachable peer) are transient; unlisted kinds are fatal")
    fx = ctx.fx
    w = W(rep, P, rule, fx)
    cands = [f for f in fx.fns.values() if f["kind"] == "fn" and f.get("inputs") == ["&std::io::Error"] and f.get("output") == "bool" and f["id"].startswith("transport::udp")]
    if len(cands) != 1:
        raise AnchorLost("is_transient_io_error", "%d candidates" % len(cands))
    f = cands[0]
    eng, rows = table(fx, f)
    true_kinds, default = set(), None
    ok_shape = True
    for row in rows:
        if row.exit != "return":
            ok_shape = False
            continue
        t = T.resolve_locals(eng, row.store, row.ret)
        for c in row.cond:
            if c[0] == "variant" and c[1][0] == "call" and short(c[1][1]) == "kind":
                if c[3] and isinstance(c[2], str):
                    if t == sym.TRUE:
                        true_kinds.add(c[2])
                    elif t != sym.FALSE:
                        ok_shape = False
                elif not c[3]:
                    default = t
            else:
                ok_shape = False
    w.n += 1
    rep.obligation(ok_shape, w.key(f, "shape"), "the classification is not a pure match on err.kind()", where(f), sample="pure match on err.kind()")
    for k in ("ConnectionRefused", "ConnectionReset"):
        w.n += 1
        rep.obligation(k in true_kinds, w.key(f, k), "%s is no longer transient: a send to an unreachable peer makes the next recv fail with it and would end the gossip loop" % k,
                       where(f), sample="%s -> transient" % k)
    w.n += 1
    rep.obligation(default == sym.FALSE, w.key(f, "default"), "unlisted error kinds are not fatal (default = %s): a dead socket would spin forever instead of being reported" % (
        sym.fmt(default) if default else None), where(f), sample="other kinds -> fatal")
    rep.floor("forwarder-obligations", w.n, 4)
    rep.instance(w.n)


# ------------------------------------------------------------------------------------------------ digest / snapshot wrappers
def digest_wrapper(ctx, rep, roles, P, rule="RW.8"):
    rep.rule(rule, "Chitchat::compute_digest forwards the exclusion set unchanged to ClusterState::compute_digest")
    fx = ctx.fx
    w = W(rep, P, rule, fx)
    try:
        fwd = roles.chitchat_compute_digest
    except AnchorLost:
        # no forwarder of the pinned shape (it was inlined, or reshaped to compute the exclusion set itself): nothing to check
        # here — every rule that reasons about the digest follows the calls down to ClusterState::compute_digest and checks the
        # exclusion set it is given there (R01.2)
        rep.count("forwarder-absent-or-reshaped", 1)
        rep.obligation(any(cs for cs in callgraph.CallGraph(fx).callers_of(roles.compute_digest["id"])), "%s/%s/digest-unused" % (P, rule),
                       "ClusterState::compute_digest is never called", None, sample="ClusterState::compute_digest reached without the forwarder")
        rep.instance(1)
        return
    w.forward(fwd, [(roles.compute_digest, ["&self.cluster_state", "&scheduled_for_deletion_nodes"])], why="digest of the whole cluster state with the given exclusion set")
    rep.floor("forwarder-obligations", w.n, 4)
    rep.instance(w.n)


def seeds(ctx, rep, roles, P, rule="RW.9"):
    rep.rule(rule, "seed accessor: Chitchat::seed_nodes -> ClusterState::seed_addrs -> a copy of the watched seed set")
    fx = ctx.fx
    w = W(rep, P, rule, fx)
    HS = "std::collections::HashSet<std::net::SocketAddr>"
    a = _m(fx, "chitchat_seed_nodes", CH, ["&Chitchat"], HS, "seed_nodes")
    b = _m(fx, "cs_seed_addrs", CS, ["&" + CS], HS, "seed_addrs")
    w.forward(a, [(b, ["&self.cluster_state"])], why="seed pool of a gossip round")
    eng, rows = table(fx, b)
    ok = len(rows) == 1 and rows[0].exit == "return" and [short(e[1]) for e in lib_calls(fx, rows[0])] == ["borrow", "deref", "clone"] and not local_calls(fx, rows[0])
    if ok:
        bor = [e for e in lib_calls(fx, rows[0]) if short(e[1]) == "borrow"][0]
        ok = fargs(bor, eng, rows[0]) == ["&self.seed_addrs"]
    w.n += 1
    rep.obligation(ok, w.key(b, "copy"), "ClusterState::seed_addrs is no longer a plain copy of the watched seed set", where(b), sample="seed_addrs = seed_addrs.borrow().clone()")
    rep.floor("forwarder-obligations", w.n, 5)
    rep.instance(w.n)


def state_readers(ctx, rep, roles, P, rule="RW.10"):
    rep.rule(rule, "state readers forward unchanged: Chitchat::node_state(s) -> ClusterState::node_state(s) -> the member map")
    fx = ctx.fx
    w = W(rep, P, rule, fx)
    MAP = "&std::collections::BTreeMap<types::ChitchatId, state::NodeState>"
    OPT = "std::option::Option<&state::NodeState>"
    a = _m(fx, "chitchat_node_states", CH, ["&Chitchat"], MAP, "node_states")
    b = _m(fx, "cs_node_states", CS, ["&" + CS], MAP, "node_states")
    c = _m(fx, "chitchat_node_state", CH, ["&Chitchat", "&types::ChitchatId"], OPT, "node_state")
    d = _m(fx, "cs_node_state", CS, ["&" + CS, "&types::ChitchatId"], OPT, "node_state")
    w.forward(a, [(b, ["&self.cluster_state"])], why="public view of all member copies")
    w.forward(b, [], ret="&self.node_states", why="the member map itself")
    w.forward(c, [(d, ["&self.cluster_state", "&chitchat_id"])], why="public view of one member copy")
    w.forward(d, [], lib=["get"], why="lookup by id")
    rep.floor("forwarder-obligations", w.n, 16)
    rep.instance(w.n)


def vv_conversions(ctx, rep, roles, P, rule="RW.11"):
    rep.rule(rule, "VersionedValue <-> VersionedValueForSerialization (serde / snapshot form) copy value and version unchanged and convert only the status")
    fx = ctx.fx
    w = W(rep, P, rule, fx)
    VV, VS = "types::VersionedValue", "types::VersionedValueForSerialization"
    pairs = [(VV, "std::convert::From<%s>" % VS, VS), (VS, "std::convert::From<%s>" % VV, VV)]
    for dst, trait, src in pairs:
        f = _m(fx, "vv_from_" + src.split("::")[-1], dst, [src], dst, "from", trait=trait)
        eng, rows = table(fx, f)
        rets = [r for r in rows if r.exit == "return"]
        ok = len(rets) == 1 and len(rows) == 1
        detail = "%d paths" % len(rows)
        if ok:
            t = T.resolve_locals(eng, rets[0].store, rets[0].ret)
            ok = t[0] == "agg" and t[1] == dst
            if ok:
                val, ver, st = T.field(t, "value"), T.field(t, "version"), T.field(t, "status")
                arg = fx.fns[f["id"]].get("params") or None
                fv, fver = sym.fmt(val), sym.fmt(ver)
                ok = fv.endswith(".value") and fver.endswith(".version") and fv.split(".")[0] == fver.split(".")[0] and "(" not in fv and "(" not in fver
                calls = [x for x in T.subterms(st) if x[0] == "call"]
                names = {short(x[1]) for x in calls}
                ok = ok and names <= {"into_status", "from", "into", "now"} and any(sym.fmt(a).endswith(".status") for x in calls for a in x[2])
                detail = "value=%s version=%s status=%s" % (fv, fver, sym.fmt(st)[:80])
        w.n += 1
        rep.obligation(ok, w.key(f, "copy"), "%s -> %s: %s" % (src, dst, detail), where(f), sample="%s -> %s: value, version copied; status converted" % (src.split("::")[-1], dst.split("::")[-1]))
    rep.floor("forwarder-obligations", w.n, 2)
    rep.instance(w.n)
