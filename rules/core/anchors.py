"""Fail-closed anchor resolution: functions are found by role (impl type + signature), with
the name only as a tie-breaker; a role that resolves to zero or several entities is reported."""


class AnchorLost(Exception):
    def __init__(self, role, why):
        Exception.__init__(self, "%s: %s" % (role, why))
        self.role = role
        self.why = why


def norm_ty(t):
    return t.replace("'_ ", "").replace("'a ", "").replace("'static ", "")


def sig_match(f, inputs, output):
    if inputs is not None:
        fi = [norm_ty(x) for x in f.get("inputs", [])]
        if len(fi) != len(inputs):
            return False
        for have, want in zip(fi, inputs):
            if want is None:
                continue
            if callable(want):
                if not want(have):
                    return False
            elif have != want:
                return False
    if output is not None:
        o = norm_ty(f.get("output", ""))
        if callable(output):
            if not output(o):
                return False
        elif o != output:
            return False
    return True


# name used only to break a tie when several functions have the role's impl type and signature
ROLE_HINTS = {}


def method(fx, role, self_ty=None, inputs=None, output=None, hint=None, kind=("method", "fn"), trait=None):
    hint = hint or ROLE_HINTS.get(role)
    cands = []
    for f in fx.fns.values():
        if f["kind"] not in kind:
            continue
        if self_ty is not None and f.get("impl_self") != self_ty:
            continue
        if trait is not None and f.get("impl_trait") != trait:
            continue
        if trait is None and self_ty is not None and f.get("impl_trait"):
            continue
        if not sig_match(f, inputs, output):
            continue
        cands.append(f)
    if len(cands) > 1 and hint:
        named = [f for f in cands if f["id"].split("::")[-1] == hint]
        if len(named) == 1:
            cands = named
    if (not cands or (len(cands) > 1 and not any(f["id"].split("::")[-1] == hint for f in cands))) and hint and inputs is not None:
        cands = []
        # the role function gained trailing parameters (a value the caller now passes along): same owner, same name, the
        # expected parameters unchanged and in front, same result.  Argument positions the rules use are unaffected.
        for f in fx.fns.values():
            if f["kind"] not in kind or f["id"].split("::")[-1] != hint:
                continue
            if self_ty is not None and (f.get("impl_self") != self_ty or f.get("impl_trait")):
                continue
            if trait is not None and f.get("impl_trait") != trait:
                continue
            fi = f.get("inputs", [])
            if len(fi) > len(inputs) and sig_match(dict(f, inputs=fi[:len(inputs)]), inputs, output):
                cands.append(f)
    if not cands:
        raise AnchorLost(role, "no function with impl type %s and signature %s -> %s" % (self_ty, inputs, output))
    if len(cands) > 1:
        raise AnchorLost(role, "ambiguous: %s" % [f["id"] for f in cands])
    return cands[0]


def by_id(fx, role, fid):
    if fid not in fx.fns:
        raise AnchorLost(role, "no function %s" % fid)
    return fx.fns[fid]


def adt(fx, role, path, fields=()):
    a = fx.adts.get(path)
    if a is None:
        raise AnchorLost(role, "no type %s" % path)
    names = {f["name"] for v in a["variants"] for f in v["fields"]}
    for f in fields:
        if f not in names:
            raise AnchorLost(role, "type %s has no field %s" % (path, f))
    return a


def where(f, line=None):
    sp = f["span"]
    return "%s:%s (%s)" % (sp["file"], line or sp["line"], f["id"])
