"""Run E1 (factgen) on /repo's current working tree; returns the facts directory."""
import os, subprocess, shutil, tempfile, sys, glob, time

VERIF = os.path.dirname(os.path.dirname(os.path.dirname(os.path.abspath(__file__))))
REPO = os.environ.get("VERIF_REPO", "/repo")
DRIVER = os.path.join(VERIF, "factgen", "target", "debug", "factgen")
CACHE = os.path.join(VERIF, ".cache", "target")


def sysroot_lib():
    out = subprocess.check_output(["rustc", "+nightly", "--print", "sysroot"], cwd=VERIF).decode().strip()
    return os.path.join(out, "lib")


def ensure_driver():
    if not os.path.exists(DRIVER):
        subprocess.check_call(["cargo", "build", "--offline"], cwd=os.path.join(VERIF, "factgen"),
                              env=dict(os.environ, CARGO_NET_OFFLINE="true"))


def run(features=None, repo=None, scratch=None):
    """-> (facts_dir, scratch_dir, seconds).  Caller removes scratch_dir."""
    repo = repo or REPO
    ensure_driver()
    t0 = time.time()
    scratch = scratch or tempfile.mkdtemp(prefix="chitchat-verif-")
    facts = os.path.join(scratch, "facts")
    os.makedirs(facts, exist_ok=True)
    target = os.path.join(scratch, "target")
    if os.path.isdir(CACHE) and not os.path.exists(target):
        # seed dependency artefacts (hard links are cheap); members are always rebuilt
        subprocess.call(["cp", "-al", CACHE, target])
        for pat in ("chitchat-*", "chitchat_test-*", "chitchat-test-*"):
            for p in glob.glob(os.path.join(target, "debug", ".fingerprint", pat)):
                shutil.rmtree(p, ignore_errors=True)
    env = dict(os.environ)
    env.update({
        "CARGO_NET_OFFLINE": "true",
        "LD_LIBRARY_PATH": sysroot_lib() + ":" + env.get("LD_LIBRARY_PATH", ""),
        "FACTGEN_OUT": facts,
        "RUSTFLAGS": "-Zmir-opt-level=0 -Awarnings",
        "RUSTC_WORKSPACE_WRAPPER": DRIVER,
        "CARGO_TARGET_DIR": target,
    })
    env.pop("RUSTC_WRAPPER", None)
    cmd = ["cargo", "+nightly", "check", "--offline", "--workspace", "--lib", "--bins"]
    if features == "all":
        cmd.append("--all-features")
    p = subprocess.run(cmd, cwd=repo, env=env, stdout=subprocess.PIPE, stderr=subprocess.STDOUT)
    if p.returncode != 0:
        sys.stderr.write(p.stdout.decode(errors="replace")[-4000:])
        raise RuntimeError("factgen: cargo check failed (the tree does not compile?)")
    return facts, scratch, time.time() - t0


def warm_cache():
    """setup: build dependency artefacts once into .cache/target"""
    os.makedirs(os.path.dirname(CACHE), exist_ok=True)
    facts, scratch, secs = run()
    tmp = CACHE + ".new.%d" % os.getpid()
    shutil.move(os.path.join(scratch, "target"), tmp)       # may be a cross-device copy: make the switch itself a rename
    if os.path.isdir(CACHE):
        shutil.rmtree(CACHE)
    os.rename(tmp, CACHE)
    shutil.rmtree(scratch, ignore_errors=True)
    return secs


if __name__ == "__main__":
    if sys.argv[1:] == ["warm"]:
        print("warmed in %.1fs" % warm_cache())
    else:
        f, s, t = run()
        print(f, s, "%.1fs" % t)
