"""Loading and indexing of factgen output (E1).  No Rust text is parsed here."""
import json, glob, os


class Facts:
    def __init__(self, path):
        with open(path) as f:
            d = json.load(f)
        self.path = path
        self.crate = d["crate"]
        self.crate_types = d["crate_types"]
        self.features = d.get("cfg_features", [])
        self.adts = {a["path"]: a for a in d["adts"]}
        self.impls = d["impls"]
        self.fns = {}
        for f in d["fns"]:
            self.fns[f["id"]] = f
        self.children = {}
        for f in d["fns"]:
            p = f.get("parent")
            if p:
                self.children.setdefault(p, []).append(f["id"])

    # ------------------------------------------------------------------ lookup
    def fn(self, fid):
        return self.fns[fid]

    def find_fns(self, pred):
        return [f for f in self.fns.values() if pred(f)]

    def methods_of(self, self_ty):
        return [f for f in self.fns.values() if f.get("impl_self") == self_ty]

    def closures_of(self, fid, recursive=True):
        out = []
        for c in self.children.get(fid, []):
            out.append(c)
            if recursive:
                out.extend(self.closures_of(c, True))
        return out

    def root_fn(self, fid):
        """The enclosing fn/method of a closure/coroutine."""
        f = self.fns[fid]
        while f.get("parent") in self.fns:
            f = self.fns[f["parent"]]
        return f["id"]


def load_dir(d):
    """returns {(crate, kind): Facts}"""
    out = {}
    for p in sorted(glob.glob(os.path.join(d, "*.json"))):
        fx = Facts(p)
        kind = fx.crate_types[0] if fx.crate_types else "?"
        out[(fx.crate, kind)] = fx
    return out


# ---------------------------------------------------------------------- pretty
def fmt_place(p):
    s = "_%d" % p["local"]
    for e in p["proj"]:
        k = e["k"]
        if k == "deref":
            s = "(*%s)" % s
        elif k == "field":
            s = "%s.%s" % (s, e.get("name", e["idx"]))
        elif k == "downcast":
            s = "(%s as %s)" % (s, e.get("variant", e["idx"]))
        elif k == "index":
            s = "%s[_%d]" % (s, e["local"])
        elif k == "constindex":
            s = "%s[%s%d]" % (s, "-" if e["from_end"] else "", e["offset"])
        elif k == "subslice":
            s = "%s[%d..%s%d]" % (s, e["from"], "-" if e["from_end"] else "", e["to"])
        else:
            s = "%s.<%s>" % (s, k)
    return s


def fmt_op(o):
    k = o["k"]
    if k in ("copy", "move"):
        return ("move " if k == "move" else "") + fmt_place(o["place"])
    if k == "const":
        if "fn" in o:
            return "fn:" + (o["fn"].get("resolved") or o["fn"]["path"])
        if "val" in o:
            return "%s_%s" % (o["val"], o["ty"])
        return "const(%s)" % o.get("repr", "?")
    return "?"


def fmt_rv(rv):
    k = rv["k"]
    if k == "use":
        return fmt_op(rv["op"])
    if k == "ref":
        return "&%s%s" % ("mut " if rv["mut"] else "", fmt_place(rv["place"]))
    if k == "binop":
        return "%s(%s, %s)" % (rv["op"], fmt_op(rv["a"]), fmt_op(rv["b"]))
    if k == "unop":
        return "%s(%s)" % (rv["op"], fmt_op(rv["a"]))
    if k == "cast":
        return "%s as %s [%s]" % (fmt_op(rv["op"]), rv["ty"], rv["cast"])
    if k == "discriminant":
        return "discr(%s)" % fmt_place(rv["place"])
    if k == "aggregate":
        name = rv.get("adt") or rv.get("def") or rv["agg"]
        if rv.get("variant") and rv["agg"] == "adt":
            name += "::" + rv["variant"]
        fields = rv.get("fields", [])
        ops = rv["ops"]
        if len(fields) == len(ops):
            return "%s{%s}" % (name, ", ".join("%s: %s" % (f, fmt_op(o)) for f, o in zip(fields, ops)))
        return "%s(%s)" % (name, ", ".join(fmt_op(o) for o in ops))
    if k == "rawptr":
        return "&raw %s" % fmt_place(rv["place"])
    return "<%s %s>" % (k, rv.get("repr", ""))


def fmt_term(t):
    k = t["k"]
    if k == "goto":
        return "goto bb%d" % t["target"]
    if k == "switch":
        return "switch(%s) [%s, otherwise: bb%d]" % (
            fmt_op(t["discr"]), ", ".join("%d: bb%d" % (v, b) for v, b in t["targets"]), t["otherwise"])
    if k == "call":
        f = t["func"]
        name = fmt_op(f)
        return "%s = %s(%s) -> %s" % (fmt_place(t["dest"]), name, ", ".join(fmt_op(a) for a in t["args"]),
                                       "bb%d" % t["target"] if t["target"] is not None else "!")
    if k == "assert":
        return "assert(%s == %s, %s) -> bb%d" % (fmt_op(t["cond"]), t["expected"], t["kind"], t["target"])
    if k == "drop":
        return "drop(%s) -> bb%d" % (fmt_place(t["place"]), t["target"])
    if k == "yield":
        return "yield(%s) -> bb%d" % (fmt_op(t["value"]), t["target"])
    if k in ("falseedge", "falseunwind"):
        return "%s -> bb%d" % (k, t["target"])
    return k


def dump_fn(f, show_cleanup=False):
    lines = ["fn %s  [%s] inputs=%s -> %s" % (f["id"], f["kind"], f.get("inputs"), f.get("output"))]
    names = {}
    for d in f.get("debug", []):
        if "place" in d:
            names.setdefault(fmt_place(d["place"]), d["name"])
    for l in f["locals"]:
        nm = names.get("_%d" % l["i"])
        if nm or l.get("arg"):
            lines.append("  let _%d: %s  // %s%s" % (l["i"], l["ty"], nm or "", " arg" if l.get("arg") else ""))
    for d in f.get("debug", []):
        if "place" in d and d["place"]["proj"]:
            lines.append("  debug %s => %s" % (d["name"], fmt_place(d["place"])))
    for i, b in enumerate(f["blocks"]):
        if b["cleanup"] and not show_cleanup:
            continue
        lines.append(" bb%d:%s" % (i, " (cleanup)" if b["cleanup"] else ""))
        for s in b["stmts"]:
            if s["k"] == "assign":
                m = s["span"].get("macros")
                lines.append("    %s = %s%s" % (fmt_place(s["place"]), fmt_rv(s["rv"]), "   // in %s" % m if m else ""))
            elif s["k"] == "setdiscr":
                lines.append("    discr(%s) = %d" % (fmt_place(s["place"]), s["idx"]))
        t = b["term"]
        m = t["span"].get("macros")
        lines.append("    %s   // L%d%s" % (fmt_term(t), t["span"]["line"], " in %s" % m if m else ""))
    return "\n".join(lines)


if __name__ == "__main__":
    import sys
    fx = Facts(sys.argv[1])
    pat = sys.argv[2]
    for fid, f in fx.fns.items():
        if pat in fid:
            print(dump_fn(f, show_cleanup="--cleanup" in sys.argv))
            print()
