"""Loading and indexing of factgen output (E1).  No Rust text is parsed here."""
import json, glob, os


class Facts:
    def __init__(self, path):
        with open(path) as f:
            raw = f.read()
        d = json.loads(raw)
        from . import paths as _paths
        raw, d, self.path_renames = _paths.canonicalise(raw, d)
        del raw
        self.path = path
        self.crate = d["crate"]
        self.crate_types = d["crate_types"]
        self.features = d.get("cfg_features", [])
        self.stolen_bodies = d.get("stolen_bodies", [])
        self.adts = {a["path"]: a for a in d["adts"]}
        self.impls = d["impls"]
        self.fns = {}
        for f in d["fns"]:
            self.fns[f["id"]] = f
        self.children = {}
        for f in d["fns"]:
            p = f.get("parent")
            if p:
                self.children.setdefault(p, []).append(f["id"])
        self.field_renames = canonicalise_fields(self)
        self.variant_renames = canonicalise_variants(self)
        self.new_helpers = find_new_helpers(self)
        self._attr_cache = {}

    # ------------------------------------------------------------------ lookup
    def fn(self, fid):
        return self.fns[fid]

    def find_fns(self, pred):
        return [f for f in self.fns.values() if pred(f)]

    def methods_of(self, self_ty):
        return [f for f in self.fns.values() if f.get("impl_self") == self_ty]

    def closures_of(self, fid, recursive=True):
        out = []
        for c in self.children.get(fid, []):
            out.append(c)
            if recursive:
                out.extend(self.closures_of(c, True))
        return out

    def attributed(self, fid):
        """known root functions a body belongs to: itself, or — for a private function that the pinned tree does not have (a
        helper introduced by a refactoring) — the known functions that call it, through chains of such helpers"""
        r = self.root_fn(fid)
        if r not in self.new_helpers:
            return {r}
        if r in self._attr_cache:
            return self._attr_cache[r]
        self._attr_cache[r] = set()       # cycle guard
        out = set()
        for c in self._callers_of_root(r):
            out |= self.attributed(c)
        self._attr_cache[r] = out or {r}
        return self._attr_cache[r]

    def _callers_of_root(self, rid):
        if not hasattr(self, "_rcallers"):
            m = {}
            for fid, f in self.fns.items():
                rf = self.root_fn(fid)
                for b in f.get("blocks") or []:
                    t = b.get("term") or {}
                    if t.get("k") != "call":
                        continue
                    fn = (t.get("func") or {}).get("fn") or {}
                    tgt = fn.get("resolved") or fn.get("path")
                    if tgt in self.fns:
                        m.setdefault(self.root_fn(tgt), set()).add(rf)
                    # a function item passed as a value (e.g. `.map(helper)`)
                    for a in t.get("args", []):
                        d = (a.get("fn") or {}) if isinstance(a, dict) else {}
                        v = d.get("resolved") or d.get("path")
                        if v in self.fns:
                            m.setdefault(self.root_fn(v), set()).add(rf)
            self._rcallers = m
        return {c for c in self._rcallers.get(rid, ()) if c != rid}

    def root_fn(self, fid):
        """The enclosing fn/method of a closure/coroutine."""
        f = self.fns[fid]
        while f.get("parent") in self.fns:
            f = self.fns[f["parent"]]
        return f["id"]


_FNREF = None


def _fnref():
    global _FNREF
    if _FNREF is None:
        p = os.path.join(os.path.dirname(os.path.dirname(os.path.abspath(__file__))), "fn_reference.json")
        _FNREF = json.load(open(p))["fns"] if os.path.exists(p) else {}
    return _FNREF


def _sig_key(fx, f):
    owner = f.get("impl_self") or "::".join(f["id"].split("::")[:-1])
    if f.get("impl_trait"):
        owner += " as " + f["impl_trait"]
    return "%s | (%s) -> %s" % (owner, ", ".join(f.get("inputs") or []), f.get("output"))


def find_new_helpers(fx):
    """root functions that the pinned tree does not have and that are not part of the crate's API: not in the reference by id,
    not exported, and not merely a renamed reference function (same owner + signature as a reference function that is gone)"""
    ref = _fnref()
    if not ref or fx.crate != "chitchat":
        return set()
    roots = {fid: f for fid, f in fx.fns.items() if f["kind"] in ("fn", "method") and not f.get("parent")}
    gone = {}
    for rid, sk in ref.items():
        if rid not in roots:
            gone[sk] = gone.get(sk, 0) + 1
    new = set()
    for fid, f in sorted(roots.items()):
        if fid in ref or f.get("exported") or f.get("impl_trait"):
            continue
        sk = _sig_key(fx, f)
        if gone.get(sk, 0) > 0:
            gone[sk] -= 1          # a rename of a known function
            continue
        new.add(fid)
    return new


_LAYOUT = None


def _layout():
    global _LAYOUT
    if _LAYOUT is None:
        p = os.path.join(os.path.dirname(os.path.dirname(os.path.abspath(__file__))), "adt_layout.json")
        _LAYOUT = json.load(open(p))["layout"] if os.path.exists(p) else {}
    return _LAYOUT


def canonicalise_fields(fx):
    """Private fields may be renamed without any behavioural change.  The rules name fields (NodeState.max_version, ...); to
    keep them independent of such renames, struct fields of the crate are mapped back to the names of the pinned tree's
    layout (rules/adt_layout.json): same name -> itself; otherwise same position and same type (when the struct has the same
    number of fields) or, failing that, the unique field of that type.  Fields that cannot be mapped keep their name (a rule
    that needs them then loses its anchor and fails closed).  Returns {adt: {current: canonical}} for the evidence."""
    ref = _layout()
    renames = {}
    for path, a in fx.adts.items():
        want = ref.get(path)
        if not want or a.get("kind") != "Struct" or not a["variants"]:
            continue
        cur = a["variants"][0]["fields"]
        cur_names = [f["name"] for f in cur]
        want_names = [w[0] for w in want]
        if set(cur_names) == set(want_names):
            continue
        m = {}
        missing = [w for w in want if w[0] not in cur_names]
        extra = [f for f in cur if f["name"] not in want_names]
        if len(cur) == len(want):
            for f, w in zip(cur, want):
                if f["name"] != w[0] and f["ty"] == w[1] and w[0] not in cur_names and f["name"] not in want_names:
                    m[f["name"]] = w[0]
        for w in missing:
            if w[0] in m.values():
                continue
            cands = [f for f in extra if f["ty"] == w[1] and f["name"] not in m]
            same_ty_missing = [x for x in missing if x[1] == w[1] and x[0] not in m.values()]
            if len(cands) == 1 and len(same_ty_missing) == 1:
                m[cands[0]["name"]] = w[0]
        if m:
            renames[path] = m
    if not renames:
        return {}

    def fix_place(pl):
        for e in pl.get("proj", []):
            if e.get("k") == "field" and e.get("adt") in renames and e.get("name") in renames[e["adt"]]:
                e["name"] = renames[e["adt"]][e["name"]]

    def walk(o):
        if isinstance(o, dict):
            if "proj" in o and "local" in o:
                fix_place(o)
            if o.get("k") == "aggregate" and o.get("adt") in renames and isinstance(o.get("fields"), list):
                o["fields"] = [renames[o["adt"]].get(n, n) for n in o["fields"]]
            for v in o.values():
                walk(v)
        elif isinstance(o, list):
            for v in o:
                walk(v)
    for path, m in renames.items():
        for f in fx.adts[path]["variants"][0]["fields"]:
            f["name"] = m.get(f["name"], f["name"])
    for f in fx.fns.values():
        walk(f.get("blocks") or [])
    return renames


def canonicalise_variants(fx):
    """The variants of a crate-private enum may be renamed without any behavioural change; the rules name variants
    (DeltaStatus::ApplyAfterReset, ...).  An enum of the reference layout whose variants keep their number, order and field
    names is mapped back position by position.  Returns {adt: {current: canonical}}."""
    from . import paths
    ref = (paths._ref()[0].get("adts") or {}) if fx.crate == "chitchat" else {}
    renames = {}
    for path, a in fx.adts.items():
        want = ref.get(path)
        if not want or a.get("kind") != "Enum" or want[0] != "Enum" or len(want[1]) != len(a["variants"]):
            continue
        cur_names = [v["name"] for v in a["variants"]]
        want_names = [w[0] for w in want[1]]
        if cur_names == want_names or set(cur_names) == set(want_names):
            continue
        m = {}
        ok = True
        for v, w in zip(a["variants"], want[1]):
            if [f["name"] for f in v["fields"]] != w[1]:
                ok = False
            if v["name"] != w[0]:
                if v["name"] in want_names or w[0] in cur_names:
                    ok = False
                m[v["name"]] = w[0]
        if ok and m:
            renames[path] = m
    if not renames:
        return {}
    by_names = {frozenset(v["name"] for v in fx.adts[p]["variants"]): p for p in renames}

    def walk(o):
        if isinstance(o, dict):
            if o.get("adt") in renames and o.get("variant") in renames[o["adt"]]:
                o["variant"] = renames[o["adt"]][o["variant"]]
            vs = o.get("variants")
            if isinstance(vs, list) and vs and all(isinstance(x, list) and len(x) == 2 for x in vs):
                p = by_names.get(frozenset(x[0] for x in vs))
                if p:
                    for x in vs:
                        x[0] = renames[p].get(x[0], x[0])
            for v in o.values():
                walk(v)
        elif isinstance(o, list):
            for v in o:
                walk(v)
    for f in fx.fns.values():
        walk(f.get("blocks") or [])
    for p, m in renames.items():
        for v in fx.adts[p]["variants"]:
            v["name"] = m.get(v["name"], v["name"])
    return renames


def load_dir(d):
    """returns {(crate, kind): Facts}"""
    out = {}
    for p in sorted(glob.glob(os.path.join(d, "*.json"))):
        fx = Facts(p)
        kind = fx.crate_types[0] if fx.crate_types else "?"
        out[(fx.crate, kind)] = fx
    return out


# ---------------------------------------------------------------------- pretty
def fmt_place(p):
    s = "_%d" % p["local"]
    for e in p["proj"]:
        k = e["k"]
        if k == "deref":
            s = "(*%s)" % s
        elif k == "field":
            s = "%s.%s" % (s, e.get("name", e["idx"]))
        elif k == "downcast":
            s = "(%s as %s)" % (s, e.get("variant", e["idx"]))
        elif k == "index":
            s = "%s[_%d]" % (s, e["local"])
        elif k == "constindex":
            s = "%s[%s%d]" % (s, "-" if e["from_end"] else "", e["offset"])
        elif k == "subslice":
            s = "%s[%d..%s%d]" % (s, e["from"], "-" if e["from_end"] else "", e["to"])
        else:
            s = "%s.<%s>" % (s, k)
    return s


def fmt_op(o):
    k = o["k"]
    if k in ("copy", "move"):
        return ("move " if k == "move" else "") + fmt_place(o["place"])
    if k == "const":
        if "fn" in o:
            return "fn:" + (o["fn"].get("resolved") or o["fn"]["path"])
        if "val" in o:
            return "%s_%s" % (o["val"], o["ty"])
        return "const(%s)" % o.get("repr", "?")
    return "?"


def fmt_rv(rv):
    k = rv["k"]
    if k == "use":
        return fmt_op(rv["op"])
    if k == "ref":
        return "&%s%s" % ("mut " if rv["mut"] else "", fmt_place(rv["place"]))
    if k == "binop":
        return "%s(%s, %s)" % (rv["op"], fmt_op(rv["a"]), fmt_op(rv["b"]))
    if k == "unop":
        return "%s(%s)" % (rv["op"], fmt_op(rv["a"]))
    if k == "cast":
        return "%s as %s [%s]" % (fmt_op(rv["op"]), rv["ty"], rv["cast"])
    if k == "discriminant":
        return "discr(%s)" % fmt_place(rv["place"])
    if k == "aggregate":
        name = rv.get("adt") or rv.get("def") or rv["agg"]
        if rv.get("variant") and rv["agg"] == "adt":
            name += "::" + rv["variant"]
        fields = rv.get("fields", [])
        ops = rv["ops"]
        if len(fields) == len(ops):
            return "%s{%s}" % (name, ", ".join("%s: %s" % (f, fmt_op(o)) for f, o in zip(fields, ops)))
        return "%s(%s)" % (name, ", ".join(fmt_op(o) for o in ops))
    if k == "rawptr":
        return "&raw %s" % fmt_place(rv["place"])
    return "<%s %s>" % (k, rv.get("repr", ""))


def fmt_term(t):
    k = t["k"]
    if k == "goto":
        return "goto bb%d" % t["target"]
    if k == "switch":
        return "switch(%s) [%s, otherwise: bb%d]" % (
            fmt_op(t["discr"]), ", ".join("%d: bb%d" % (v, b) for v, b in t["targets"]), t["otherwise"])
    if k == "call":
        f = t["func"]
        name = fmt_op(f)
        return "%s = %s(%s) -> %s" % (fmt_place(t["dest"]), name, ", ".join(fmt_op(a) for a in t["args"]),
                                       "bb%d" % t["target"] if t["target"] is not None else "!")
    if k == "assert":
        return "assert(%s == %s, %s) -> bb%d" % (fmt_op(t["cond"]), t["expected"], t["kind"], t["target"])
    if k == "drop":
        return "drop(%s) -> bb%d" % (fmt_place(t["place"]), t["target"])
    if k == "yield":
        return "yield(%s) -> bb%d" % (fmt_op(t["value"]), t["target"])
    if k in ("falseedge", "falseunwind"):
        return "%s -> bb%d" % (k, t["target"])
    return k


def dump_fn(f, show_cleanup=False):
    lines = ["fn %s  [%s] inputs=%s -> %s" % (f["id"], f["kind"], f.get("inputs"), f.get("output"))]
    names = {}
    for d in f.get("debug", []):
        if "place" in d:
            names.setdefault(fmt_place(d["place"]), d["name"])
    for l in f["locals"]:
        nm = names.get("_%d" % l["i"])
        if nm or l.get("arg"):
            lines.append("  let _%d: %s  // %s%s" % (l["i"], l["ty"], nm or "", " arg" if l.get("arg") else ""))
    for d in f.get("debug", []):
        if "place" in d and d["place"]["proj"]:
            lines.append("  debug %s => %s" % (d["name"], fmt_place(d["place"])))
    for i, b in enumerate(f["blocks"]):
        if b["cleanup"] and not show_cleanup:
            continue
        lines.append(" bb%d:%s" % (i, " (cleanup)" if b["cleanup"] else ""))
        for s in b["stmts"]:
            if s["k"] == "assign":
                m = s["span"].get("macros")
                lines.append("    %s = %s%s" % (fmt_place(s["place"]), fmt_rv(s["rv"]), "   // in %s" % m if m else ""))
            elif s["k"] == "setdiscr":
                lines.append("    discr(%s) = %d" % (fmt_place(s["place"]), s["idx"]))
        t = b["term"]
        m = t["span"].get("macros")
        lines.append("    %s   // L%d%s" % (fmt_term(t), t["span"]["line"], " in %s" % m if m else ""))
    return "\n".join(lines)


if __name__ == "__main__":
    import sys
    fx = Facts(sys.argv[1])
    pat = sys.argv[2]
    for fid, f in fx.fns.items():
        if pat in fid:
            print(dump_fn(f, show_cleanup="--cleanup" in sys.argv))
            print()
