"""Wire tables: ordered items written by `Serializable::serialize`, read by `Deserializable::deserialize`, and the linear
form of `serialized_len`, extracted from MIR."""
from . import sym, tables as T, orderenum as oe

SER = "serialize::Serializable"
DES = "serialize::Deserializable"


def impls(fx, trait, method):
    out = {}
    for f in fx.fns.values():
        if f.get("impl_trait") == trait and f["id"].endswith("::" + method) and f["kind"] == "method":
            out[f["impl_self"]] = f
    return out


def self_type_of_callee(path):
    """'<T as serialize::Serializable>::serialize' -> 'T'"""
    if path.startswith("<") and " as " in path:
        depth = 0
        for i, ch in enumerate(path):
            if ch == "<":
                depth += 1
            elif ch == ">":
                depth -= 1
            elif depth == 1 and path.startswith(" as ", i):
                return path[1:i]
    return None


def describe(eng, row, t, selfroot=("S", "self")):
    """accessor chain of a source term relative to self, e.g. 'self.heartbeat', 'self.ip()', '(self.len() as u16)'"""
    t = T.resolve_locals(eng, row.store, t)

    def d(x):
        k = x[0]
        if k == "obj":
            if x[1] == selfroot:
                return "self"
            if x[1][0] == "D":
                return d(x[1][1])
            return sym.fmt_root(x[1])
        if k == "ptr":
            base = "self" if x[1] == selfroot else (d(x[1][1]) if x[1][0] == "D" else sym.fmt_root(x[1]))
            return base + "".join("." + e[2] if e[0] == "f" else "@" + str(e[1]) if e[0] == "v" else "[]" for e in x[2])
        if k == "proj":
            e = x[2]
            return d(x[1]) + ("." + e[2] if e[0] == "f" else "@" + str(e[1]) if e[0] == "v" else "[]")
        if k == "loopvar":
            # an iterator advanced by a loop: describe it by what it iterates
            return d(x[2]) if len(x) > 2 else "loop"
        if k == "call":
            nm = sym.strip_all_generics(x[1][6:] if x[1].startswith("havoc:") else x[1]).split("::")[-1]
            if nm in ("deref", "as_ref", "borrow", "clone", "into", "from", "iter", "into_iter", "iter_mut") and x[2]:
                return d(x[2][0])
            if nm == "next" and x[2]:
                # one element of the iteration, whatever drives it (for loop, for_each, fold): `each(<collection>)`
                inner = d(x[2][0])
                while inner.startswith("each(") and inner.endswith(")"):
                    inner = inner[5:-1]
                return "each(%s)" % inner
            args = [d(a) for a in x[2]]
            if args:
                return "%s.%s(%s)" % (args[0], nm, ", ".join(args[1:]))
            return nm + "()"
        if k == "cast":
            return "(%s as %s)" % (d(x[2]), x[1])
        if k == "c":
            return repr(x[1])
        if k == "dconst":
            return "tag:%s=%s" % (x[2], x[1])
        if k == "agg":
            return "%s{%s}" % ((x[2] or x[1] or "").split("::")[-1], ",".join(d(v) for _, v in x[3]))
        if k == "op":
            return "(%s %s %s)" % (d(x[2]), x[1], d(x[3]))
        return sym.fmt(x)[:40]
    return d(t)


def variant_of_row(row, root=("S", "self")):
    v = None
    for c in row.cond:
        if c[0] == "variant" and c[3] and (c[1] == ("obj", root) or c[1] == ("obj", ("D", ("obj", root)))):
            v = c[2]
    return v


def writer(fx, f, ser_impls, len_impls):
    """{variant: [(kind, wiretype, source, term)]} for a serialize fn"""
    no_inline = {x["id"] for x in ser_impls.values() if x["id"] != f["id"]} | {x["id"] for x in len_impls.values()}
    eng = sym.Engine(fx, no_inline=no_inline)
    rows = eng.table(f["id"], arg_terms={1: ("ptr", ("S", "self"), ()), 2: ("ptr", ("S", "buf"), ())})
    out = {}
    for row in rows:
        if row.exit not in ("return", "backedge"):
            continue
        items = []
        for e in row.events:
            if e[0] != "call" or not e[2]:
                continue
            bufargs = [a for a in e[2] if a[0] == "ptr" and a[1] == ("S", "buf")]
            if not bufargs:
                continue
            nm = sym.strip_all_generics(e[1]).split("::")[-1]
            if e[1].endswith("Serializable>::serialize") or e[1].endswith("Serializable::serialize"):
                ty = self_type_of_callee(e[1]) or "?"
                if ty == "?" and e[5]:
                    ty = (e[5].get("args") or ["?"])[0]
                items.append(("ser", ty, describe(eng, row, e[2][0]), e[2][0]))
            elif nm == "push":
                items.append(("byte", "u8", describe(eng, row, e[2][1]), T.resolve_locals(eng, row.store, e[2][1])))
            elif nm in ("extend", "extend_from_slice"):
                items.append(("bytes", "[u8]", describe(eng, row, e[2][1]), T.resolve_locals(eng, row.store, e[2][1])))
        key = (variant_of_row(row), row.exit)
        out.setdefault(key, []).append(items)
    return eng, out


def reader(fx, f, des_impls):
    """{variant-key: [(wiretype, call term)]}, plus landing {field: index of decode call} for Ok rows"""
    no_inline = {x["id"] for x in des_impls.values() if x["id"] != f["id"]}
    eng = sym.Engine(fx, no_inline=no_inline)
    rows = eng.table(f["id"], arg_terms={1: ("ptr", ("S", "buf"), ())})
    out = []
    for row in rows:
        if row.exit != "return" or row.ret is None or row.ret[0] != "agg" or row.ret[2] != "Ok":
            continue
        calls = []
        for e in row.events:
            if e[0] == "call" and (e[1].endswith("Deserializable>::deserialize") or e[1].endswith("Deserializable::deserialize")):
                ty = self_type_of_callee(e[1]) or ((e[5] or {}).get("args") or ["?"])[0]
                conc = ((e[5] or {}).get("args") or [None])[0]
                if ty and " N]" in ty and conc and conc.startswith("[u8;"):
                    ty = conc     # concrete array length of this call
                calls.append((ty, e))
        val = T.resolve_locals(eng, row.store, T.field(row.ret, "0"))
        out.append((row, calls, val))
    return eng, out


def decode_index(calls, term):
    """which nested decode call (by callee + occurrence) a term derives from"""
    hits = []
    for s in T.subterms(term):
        if s[0] == "call" and (s[1].endswith("Deserializable>::deserialize") or s[1].endswith("Deserializable::deserialize")):
            occ = s[3] if len(s) > 3 else None
            same = [i for i, (ty, e) in enumerate(calls) if e[1] == s[1]]
            # occurrence index among calls to the same callee
            if occ is not None and occ < len(same):
                hits.append(same[occ])
            elif len(same) == 1:
                hits.append(same[0])
    return hits
