"""Helpers on decision tables: canonical atoms (roles), row selection, term search."""
import itertools
from . import sym, orderenum as oe
from .sym import proj


def R(role):
    """canonical atom for a role"""
    return ("obj", ("R", role))


def subterms(t, acc=None):
    if acc is None:
        acc = []
    acc.append(t)
    k = t[0]
    if k in ("proj",):
        subterms(t[1], acc)
    elif k == "upd":
        subterms(t[1], acc)
        subterms(t[3], acc)
    elif k == "agg":
        for _, v in t[3]:
            subterms(v, acc)
    elif k == "closure":
        for _, v in t[2]:
            subterms(v, acc)
    elif k == "op":
        subterms(t[2], acc)
        subterms(t[3], acc)
    elif k in ("un", "cast"):
        subterms(t[2], acc)
    elif k == "ite":
        subterms(t[1], acc)
        subterms(t[2], acc)
        subterms(t[3], acc)
    elif k == "call":
        for a in t[2]:
            subterms(a, acc)
    elif k == "discr":
        subterms(t[1], acc)
    elif k == "ptr":
        if t[1][0] == "D":
            subterms(t[1][1], acc)
    elif k == "obj":
        if t[1][0] == "D":
            subterms(t[1][1], acc)
    elif k == "loopvar":
        if len(t) > 2:
            subterms(t[2], acc)
    return acc


def rewrite(t, f):
    """bottom-up rewriting: f(term) -> replacement or None"""
    r = f(t)
    if r is not None:
        return r
    k = t[0]
    if k == "proj":
        return proj(rewrite(t[1], f), t[2])
    if k == "agg":
        return ("agg", t[1], t[2], tuple((n, rewrite(v, f)) for n, v in t[3]))
    if k == "op":
        return sym.binop(t[1], rewrite(t[2], f), rewrite(t[3], f))
    if k == "un":
        a = rewrite(t[2], f)
        return sym.neg(a) if t[1] == "Not" else ("un", t[1], a)
    if k == "cast":
        return ("cast", t[1], rewrite(t[2], f))
    if k == "ite":
        return sym.ite(rewrite(t[1], f), rewrite(t[2], f), rewrite(t[3], f))
    if k == "call":
        return ("call", t[1], tuple(rewrite(a, f) for a in t[2]), t[3])
    if k == "discr":
        return ("discr", rewrite(t[1], f)) + tuple(t[2:])
    if k == "loopvar" and len(t) > 2:
        return ("loopvar", t[1], rewrite(t[2], f)) + tuple(t[3:])
    return t


def rewrite_cond(c, f):
    if c[0] == "truth":
        return ("truth", rewrite(c[1], f), c[2])
    if c[0] == "variant":
        return ("variant", rewrite(c[1], f), c[2], c[3])
    if c[0] == "inteq":
        return ("inteq", rewrite(c[1], f), c[2], c[3])
    return c


def last_field(t):
    """(adt, name) of the outermost field projection of an atom, skipping downcasts"""
    while t[0] == "proj":
        e = t[2]
        if e[0] == "f":
            return e[1], e[2]
        t = t[1]
    return None


def base_of(t):
    """strip the outermost field projection"""
    if t[0] == "proj":
        return t[1]
    return None


def calls_named(row, suffixes):
    out = []
    for e in row.events:
        if e[0] == "call" and any(e[1].endswith(s) or sym.strip_all_generics(e[1]).endswith(s) for s in suffixes):
            out.append(e)
    return out


def find_aggs(term, adt):
    return [t for t in subterms(term) if t[0] == "agg" and t[1] == adt]


def row_aggs(row, adt):
    """aggregates of type `adt` that appear as call arguments or written values in a row"""
    out = []
    for e in row.events:
        if e[0] == "call":
            for a in e[2]:
                out.extend(find_aggs(a, adt))
        elif e[0] in ("write", "lwrite"):
            out.extend(find_aggs(e[3], adt))
    seen = []
    for a in out:
        if a not in seen:
            seen.append(a)
    return seen


def field(agg, name):
    for n, v in agg[3]:
        if n == name:
            return v
    return None


class Table:
    """rows with canonicalised conditions; evaluation on assignments"""

    def __init__(self, rows, canon=None):
        self.rows = rows
        self.canon = canon
        self.conds = []
        for r in rows:
            cs = r.cond
            if canon:
                cs = [rewrite_cond(c, canon) for c in cs]
            self.conds.append(cs)

    def atoms(self):
        acc = []
        for cs in self.conds:
            for c in cs:
                oe.cond_atoms(c, acc)
        return acc

    def select(self, asg):
        out = []
        for r, cs in zip(self.rows, self.conds):
            if all(oe.holds(c, asg) for c in cs):
                out.append(r)
        return out

    def term(self, t):
        return rewrite(t, self.canon) if self.canon else t


def free_domains(atoms, known, int_range):
    """enumeration domains for atoms that carry no role: discriminants range over their
    variants, booleans over {F,T}, others over the integer range"""
    doms = []
    for a in atoms:
        if a in known:
            continue
        if a[0] == "discr":
            # variants are on the full discr term in conditions; use Some/None default
            doms.append((a, ["Some", "None"]))
        else:
            doms.append((a, list(int_range)))
    return doms


def mentions_field(t, adt, name):
    """some sub-term projects or points at field `adt.name`"""
    e = ("f", adt, name)
    for s in subterms(t):
        if s[0] == "proj" and s[2] == e:
            return True
        if s[0] == "ptr" and e in s[2]:
            return True
    return False


class _S:
    def __init__(self, store):
        self.store = store


def resolve_locals(eng, store, t, depth=5):
    """replace pointers to frame locals by the values they point to (for provenance checks)"""
    if depth == 0:
        return t

    def f(x):
        if x[0] == "ptr" and x[1][0] == "L":
            v = eng.read_rp(_S(store), x[1], x[2])
            if v[0] == "undef":
                return None
            return resolve_locals(eng, store, v, depth - 1)
        if x[0] == "ptr" and x[1][0] == "D":
            inner = resolve_locals(eng, store, x[1][1], depth - 1)
            if inner != x[1][1]:
                return ("ptr", ("D", inner), x[2])
        if x[0] == "obj" and x[1][0] == "D":
            inner = resolve_locals(eng, store, x[1][1], depth - 1)
            if inner != x[1][1]:
                return ("obj", ("D", inner))
        return None
    return rewrite(t, f)


def path_field(path):
    """name of the last field element of a projection path (index / downcast elements skipped), or None"""
    for x in reversed(path or ()):
        if x[0] == "f":
            return x[2]
    return None


def collection_items(eng, rows, fx=None):
    """How a collection is built, whatever the style: per loop-body row the items it adds — from `pipeline.collect()` (engine
    event fused:collect-item) or from `map.insert(k, v)` / `set.insert(k)` / `vec.push(x)` in a `for` loop.
    -> [(row, [(key term, value term | None)])] for every loop-body row (rows that add nothing have an empty list)"""
    out = []
    for row in rows:
        if row.exit != "backedge":
            continue
        adds = []
        for e in row.calls():
            nm = sym.strip_all_generics(e[1]).split("::")[-1]
            if e[1] == "fused:collect-item":
                el = resolve_locals(eng, row.store, e[2][0])
                if el[0] == "agg" and el[1] == "<tuple>" and len(el[3]) == 2:
                    adds.append((el[3][0][1], el[3][1][1]))
                else:
                    adds.append((el, None))
            elif nm == "insert" and ("collections::" in e[1]) and len(e[2]) >= 2:
                k = resolve_locals(eng, row.store, e[2][1])
                v = resolve_locals(eng, row.store, e[2][2]) if len(e[2]) > 2 else None
                adds.append((k, v))
            elif nm == "push" and "vec::Vec" in e[1] and len(e[2]) == 2:
                adds.append((resolve_locals(eng, row.store, e[2][1]), None))
        out.append((row, adds))
    return out
