"""Call graph over local bodies: resolved Call terminators, closure/coroutine creation edges,
trait-method fan-out for unresolved dynamic/generic calls (over-approximation)."""
from . import cfg as cfgmod
from .sym import strip_all_generics, trait_method


class CallSite:
    __slots__ = ("caller", "block", "declared", "target", "local", "term", "fj", "real_caller")

    def __init__(self, caller, block, declared, target, local, term, fj):
        self.caller = caller
        self.real_caller = caller
        self.block = block
        self.declared = declared
        self.target = target
        self.local = local
        self.term = term
        self.fj = fj

    @property
    def line(self):
        return self.term["span"]["line"]


class CallGraph:
    def __init__(self, fx):
        self.fx = fx
        self.sites = {}      # caller -> [CallSite]
        self.edges = {}      # caller -> set(callee ids that are local bodies)
        self.callers = {}    # callee -> [CallSite]
        self.trait_impls = {}  # 'trait::method' -> [local fn ids]
        for f in fx.fns.values():
            tr = f.get("impl_trait")
            if tr:
                name = strip_all_generics(tr) + "::" + f["id"].split("::")[-1]
                self.trait_impls.setdefault(name, []).append(f["id"])
        for fid, f in fx.fns.items():
            self.sites[fid] = []
            self.edges[fid] = set()
        for fid, f in fx.fns.items():
            for bi, b in enumerate(f["blocks"]):
                if b["cleanup"]:
                    continue
                for s in b["stmts"]:
                    if s["k"] == "assign" and s["rv"]["k"] == "aggregate" and s["rv"].get("def") in fx.fns:
                        self.edges[fid].add(s["rv"]["def"])
                t = b["term"]
                c = cfgmod.term_callee(t)
                if c is None:
                    continue
                declared, resolved, fj = c
                target = resolved or declared
                local = target in fx.fns
                cs = CallSite(fid, bi, declared, target, local, t, fj)
                self.sites[fid].append(cs)
                self.callers.setdefault(target, []).append(cs)
                if local:
                    self.edges[fid].add(target)
                else:
                    # unresolved trait call on a generic / dyn receiver: fan out to local impls
                    key = strip_all_generics(declared)
                    tm = trait_method(target)
                    for k in {key, tm}:
                        for impl in self.trait_impls.get(k, []):
                            if fj.get("resolved_kind") == "virtual" or not fj.get("resolved") or fj.get("resolved") == declared:
                                self.edges[fid].add(impl)
        # closures are reachable from their parents even when only passed to library code
        for fid, f in fx.fns.items():
            p = f.get("parent")
            if p in self.edges:
                self.edges[p].add(fid)

    def reachable(self, roots, stop=()):
        seen = set()
        st = list(roots)
        while st:
            x = st.pop()
            if x in seen or x in stop:
                continue
            seen.add(x)
            st.extend(self.edges.get(x, ()))
        return seen

    def callers_of(self, fid, raw=False, _seen=None):
        """call sites of fid.  A site inside a private helper that the pinned tree does not have (fx.new_helpers) is replaced by
        the sites that call that helper (transitively): who-may-call rules then see the known function on whose behalf the
        helper runs."""
        sites = self.callers.get(fid, [])
        if raw:
            return sites
        _seen = _seen or set()
        out = []
        for cs in sites:
            r = self.fx.root_fn(cs.caller)
            if r in self.fx.new_helpers and r not in _seen:
                up = self.callers_of(r, _seen=_seen | {r})
                out.extend(up if up else [cs])
            elif r != cs.caller:
                # a call made inside a closure / coroutine body is made by the enclosing function
                c2 = CallSite(r, cs.block, cs.declared, cs.target, cs.local, cs.term, cs.fj)
                c2.real_caller = cs.caller
                out.append(c2)
            else:
                out.append(cs)
        return out

    def calls_in(self, fid, pred):
        return [cs for cs in self.sites.get(fid, []) if pred(cs)]

    def path(self, src, dst):
        """one call path src -> dst (list of fn ids) or None"""
        prev = {src: None}
        st = [src]
        while st:
            x = st.pop(0)
            if x == dst:
                out = []
                while x is not None:
                    out.append(x)
                    x = prev[x]
                return out[::-1]
            for y in sorted(self.edges.get(x, ())):
                if y not in prev:
                    prev[y] = x
                    st.append(y)
        return None
