"""Path canonicalisation: a refactoring may rename or move a private type, a module or a private function without any
behavioural change.  The rules name types and functions by the paths of the pinned tree; this pass maps the paths of the
current tree back to those names BEFORE anything is analysed, so that the rules keep deciding the code instead of losing
their anchors.  It never decides a property: it only renames, and only when the match is unique and the renamed item has
the shape (ADT: kind, variants, field names; fn: owner, signature, callee fingerprint) of the reference item that
disappeared.  Anything it cannot map keeps its name (the rule that needs it then fails closed with anchor-lost)."""
import json, os, re

_HERE = os.path.dirname(os.path.dirname(os.path.abspath(__file__)))
_REF = None


def _ref():
    global _REF
    if _REF is None:
        p = os.path.join(_HERE, "path_reference.json")
        q = os.path.join(_HERE, "fn_reference.json")
        _REF = (json.load(open(p)) if os.path.exists(p) else {}, json.load(open(q))["fns"] if os.path.exists(q) else {})
    return _REF


def shape(a):
    return [a.get("kind"), [[v["name"], [f["name"] for f in v["fields"]]] for v in a["variants"]]]


def _same_shape(s1, s2):
    if s1[0] != s2[0] or len(s1[1]) != len(s2[1]):
        return False
    for v1, v2 in zip(s1[1], s2[1]):
        if s1[0] != "Struct" and v1[0] != v2[0]:
            return False            # a struct's single variant carries the type's own name
        if v1[1] != v2[1]:
            return False
    return True


def _mod(p):
    return "::".join(p.split("::")[:-1])


def _base(p):
    return p.split("::")[-1]


def _plain(p):
    return "<" not in p and "::_::" not in p and "{" not in p


def _subst(raw, pairs):
    """textual, delimiter-aware replacement of paths inside the facts (every string of the JSON document)"""
    for cur, ref in sorted(pairs, key=lambda x: -len(x[0])):
        raw = re.sub(r"(?<![A-Za-z0-9_:])" + re.escape(cur) + r"(?![A-Za-z0-9_])", ref.replace("\\", "\\\\"), raw)
    return raw


def _strip_generics(p):
    out, depth = [], 0
    for ch in p:
        if ch == "<":
            depth += 1
        elif ch == ">":
            depth -= 1
        elif depth == 0:
            out.append(ch)
    return "".join(out)


def fingerprint(d_fns, rid):
    """multiset of callee base names of a root function and its closures"""
    out = {}
    for f in d_fns:
        if f["id"] != rid and not f["id"].startswith(rid + "::{"):
            continue
        for b in f.get("blocks") or []:
            if b.get("cleanup"):
                continue
            t = b["term"]
            if t["k"] == "call" and t["func"]["k"] == "const" and "fn" in t["func"]:
                n = _base(_strip_generics(t["func"]["fn"]["path"]))
                out[n] = out.get(n, 0) + 1
    return out


def _similar(a, b):
    if not a and not b:
        return True
    inter = sum(min(a.get(k, 0), b.get(k, 0)) for k in set(a) | set(b))
    union = sum(max(a.get(k, 0), b.get(k, 0)) for k in set(a) | set(b))
    return union > 0 and inter / union >= 0.5


def _sig_key(f):
    owner = f.get("impl_self") or "::".join(f["id"].split("::")[:-1])
    if f.get("impl_trait"):
        owner += " as " + f["impl_trait"]
    return "%s | (%s) -> %s" % (owner, ", ".join(f.get("inputs") or []), f.get("output"))


def adt_renames(d):
    ref = _ref()[0].get("adts") or {}
    if not ref:
        return [], {}
    cur = {a["path"]: shape(a) for a in d["adts"]}
    gone = [p for p in ref if p not in cur and _plain(p)]
    new = [p for p in cur if p not in ref and _plain(p)]
    m = {}
    for n in new:
        cands = [g for g in gone if _base(g) == _base(n) and _same_shape(ref[g], cur[n])]
        if not cands:
            cands = [g for g in gone if _mod(g) == _mod(n) and _same_shape(ref[g], cur[n])]
        if len(cands) == 1:
            m.setdefault(cands[0], []).append(n)
    item = {ns[0]: g for g, ns in m.items() if len(ns) == 1}
    return item, cur


def module_renames(d, item, fn_item):
    """a module all of whose reference items are gone and whose new name holds no reference item was renamed as a whole"""
    refa, reff = _ref()
    ref_paths = [p for p in (refa.get("adts") or {})] + list(reff)
    cur_paths = [a["path"] for a in d["adts"]] + [f["id"] for f in d["fns"]]
    pairs = {}
    for n, g in list(item.items()) + list(fn_item.items()):
        if _base(n) == _base(g) and _mod(n) != _mod(g) and _mod(n) and _mod(g):
            pairs.setdefault((_mod(n), _mod(g)), 0)
            pairs[(_mod(n), _mod(g))] += 1
    out = {}
    for (cm, rm), k in pairs.items():
        if any(p == rm or p.startswith(rm + "::") for p in cur_paths if _plain(p)):
            continue        # the reference module still exists: a partial move, handled item by item
        if any(p.startswith(cm + "::") for p in ref_paths if _plain(p)):
            continue
        out[cm] = rm
    return out


def fn_renames(d):
    reff = _ref()[1]
    fp_ref = _ref()[0].get("fn_callees") or {}
    if not reff:
        return {}
    roots = {f["id"]: f for f in d["fns"] if f["kind"] in ("fn", "method") and not f.get("parent")}
    gone = [g for g in reff if g not in roots and _plain(g)]

    mods = {a["path"].split("::")[0] for a in d["adts"] if "::" in a["path"] and _plain(a["path"])}

    def private_trait_method(n):
        # `<Owner as Trait>::name` of a trait declared in this crate and not exported: a private extension trait
        f = roots[n]
        tr = f.get("impl_trait") or ""
        return bool(n.startswith("<") and "::_::" not in n and tr and "<" not in tr and not f.get("exported")
                    and ("::" not in tr or tr.split("::")[0] in mods))
    new = [n for n in roots if n not in reff and ((_plain(n) and not roots[n].get("impl_trait")) or private_trait_method(n))]
    m = {}
    for n in new:
        sk = _sig_key(roots[n])
        cands = [g for g in gone if reff[g] == sk]
        if not cands:
            # a method turned into a free / associated function or moved into a private extension trait (or back): the name,
            # the parameter types (receiver included) and the result type are all unchanged
            tail = sk.split(" | ", 1)[1]
            cands = [g for g in gone if _base(g) == _base(n) and reff[g].split(" | ", 1)[1] == tail]
        if not cands:
            # a free function that moved to another module keeps its name and its signature
            tail = sk.split(" | ", 1)[1]
            cands = [g for g in gone if _base(g) == _base(n) and reff[g].split(" | ", 1)[1] == tail and not roots[n].get("impl_self")]
        if len(cands) > 1:
            same = [g for g in cands if _base(g) == _base(n)]
            if len(same) == 1:
                cands = same
            else:
                fp = fingerprint(d["fns"], n)
                best = [g for g in cands if g in fp_ref and fp_ref[g] == fp]
                if len(best) == 1:
                    cands = best
        if len(cands) == 1:
            g = cands[0]
            if g in fp_ref and not _similar(fp_ref[g], fingerprint(d["fns"], n)):
                continue
            m.setdefault(g, []).append(n)
    return {ns[0]: g for g, ns in m.items() if len(ns) == 1}


def _fix_owner(d, fns):
    """after the ids were rewritten: a function that was matched across owners gets the reference's owner back"""
    reff = _ref()[1]
    adts = {a["path"] for a in d["adts"]}
    targets = set(fns.values())
    for f in d["fns"]:
        if f["id"] in targets:
            owner = reff[f["id"]].split(" | ", 1)[0]
            if " as " in owner:
                continue
            if owner in adts:
                f["impl_self"], f["impl_trait"], f["kind"] = owner, None, "method"
            else:
                f["impl_self"], f["impl_trait"], f["kind"] = None, None, "fn"


def _ref_inputs(sk):
    """parameter types of a reference signature key `owner | (a, b, c) -> out` (top-level commas only)"""
    body = sk.split(" | ", 1)[1]
    depth, i0, out, i = 0, 1, [], 0
    assert body[0] == "("
    for i, ch in enumerate(body):
        if ch in "(<[":
            depth += 1
        elif ch in ")>]":
            depth -= 1
            if depth == 0 and ch == ")":
                if body[i0:i].strip():
                    out.append(body[i0:i].strip())
                break
        elif ch == "," and depth == 1:
            out.append(body[i0:i].strip())
            i0 = i + 1
    return out, body[i + 1:]


def _embed(ref, cur, leftmost=True):
    pos, j = [], (0 if leftmost else len(cur) - 1)
    seq = ref if leftmost else list(reversed(ref))
    for t in seq:
        while 0 <= j < len(cur) and cur[j] != t:
            j += 1 if leftmost else -1
        if not (0 <= j < len(cur)):
            return None
        pos.append(j)
        j += 1 if leftmost else -1
    return pos if leftmost else list(reversed(pos))


def param_canon(d):
    """A private function whose parameters were reordered, or that gained parameters between the old ones, is rewritten so
    that the reference's parameters come first, in the reference's order (the added ones follow): the argument locals of
    its body and the argument lists of its call sites are permuted alike.  Only when the reference's parameter types embed
    into the current ones in exactly one way.  -> {fn id: [new position of each current parameter]}"""
    reff = _ref()[1]
    done = {}
    by_id = {f["id"]: f for f in d["fns"]}
    for fid, f in by_id.items():
        if fid not in reff or f.get("parent") or f["kind"] not in ("fn", "method") or f.get("exported"):
            continue
        try:
            rin, _ = _ref_inputs(reff[fid])
        except Exception:
            continue
        cur = list(f.get("inputs") or [])
        if rin == cur or len(rin) > len(cur) or len(cur) != f.get("arg_count"):
            continue
        if sorted(rin) == sorted(cur):
            # a pure reordering: every type must be distinct for the permutation to be determined
            if len(set(cur)) != len(cur):
                continue
            order = [cur.index(t) for t in rin]
        else:
            a, b = _embed(rin, cur, True), _embed(rin, cur, False)
            if a is None or a != b:
                continue
            order = a + [i for i in range(len(cur)) if i not in a]
        if order == list(range(len(cur))):
            continue
        newpos = {old + 1: new + 1 for new, old in enumerate(order)}      # argument locals are 1-based

        def walk(o):
            if isinstance(o, dict):
                if isinstance(o.get("local"), int) and o["local"] in newpos:
                    o["local"] = newpos[o["local"]]
                for v in o.values():
                    walk(v)
            elif isinstance(o, list):
                for v in o:
                    walk(v)
        walk(f["blocks"])
        walk(f.get("debug") or [])
        f["inputs"] = [cur[i] for i in order]
        locs = f.get("locals") or []
        args = {l["i"]: l for l in locs if 1 <= l["i"] <= len(cur)}
        if len(args) == len(cur):
            for old, new in newpos.items():
                args[old]["i"] = new
                if "arg" in args[old]:
                    args[old]["arg"] = new
            f["locals"] = sorted(locs, key=lambda l: l["i"])
        for dv in f.get("debug") or []:
            if dv.get("arg") in newpos:
                dv["arg"] = newpos[dv["arg"]]
        for g in d["fns"]:
            for b in g.get("blocks") or []:
                t = b["term"]
                if t["k"] == "call" and t["func"]["k"] == "const" and "fn" in t["func"]:
                    fj = t["func"]["fn"]
                    if fid in (fj.get("path"), fj.get("resolved")) and len(t["args"]) == len(cur):
                        t["args"] = [t["args"][i] for i in order]
        done[fid] = order
    return done


def canonicalise(raw, d):
    """-> (raw', d', {current path: reference path})"""
    if d.get("crate") != "chitchat":
        return raw, d, {}
    done = {}
    item, _ = adt_renames(d)
    # free functions that moved along with their module help to recognise a whole-module rename
    mods = module_renames(d, item, {})
    pairs = [(cm + "::", rm + "::") for cm, rm in mods.items()]
    if pairs:
        raw = _subst_prefix(raw, mods)
        d = json.loads(raw)
        done.update({cm + "::*": rm + "::*" for cm, rm in mods.items()})
        item, _ = adt_renames(d)
    if item:
        raw = _subst(raw, list(item.items()))
        d = json.loads(raw)
        done.update(item)
    fns = fn_renames(d)
    if fns:
        mods2 = module_renames(d, {}, fns)
        if mods2:
            raw = _subst_prefix(raw, mods2)
            d = json.loads(raw)
            done.update({cm + "::*": rm + "::*" for cm, rm in mods2.items()})
            fns = fn_renames(d)
    if fns:
        raw = _subst(raw, list(fns.items()))
        d = json.loads(raw)
        _fix_owner(d, fns)
        done.update(fns)
    perm = param_canon(d)
    for fid, order in perm.items():
        done[fid + "(params)"] = order
    return raw, d, done


def _subst_prefix(raw, mods):
    for cm, rm in sorted(mods.items(), key=lambda x: -len(x[0])):
        raw = re.sub(r"(?<![A-Za-z0-9_:])" + re.escape(cm) + r"::", rm + "::", raw)
    return raw
