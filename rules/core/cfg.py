"""CFG queries on mir_built bodies (unwind edges excluded): successors, dominators,
post-dominators, natural loops, reachability, macro regions."""

TRACING_MACROS = {"info", "warn", "debug", "error", "trace"}


def succs(block):
    """Normal (non-unwind) successors with edge labels: list of (label, target)."""
    t = block["term"]
    k = t["k"]
    if k == "goto":
        return [("goto", t["target"])]
    if k == "switch":
        out = [(("eq", v), b) for v, b in t["targets"]]
        out.append((("otherwise", tuple(v for v, _ in t["targets"])), t["otherwise"]))
        return out
    if k in ("drop", "falseedge", "falseunwind", "assert"):
        return [(k, t["target"])]
    if k == "yield":
        return [("resume", t["target"])]
    if k == "call":
        return [("ret", t["target"])] if t["target"] is not None else []
    return []


class CFG:
    def __init__(self, fn):
        self.fn = fn
        self.blocks = fn["blocks"]
        self.n = len(self.blocks)
        self.succ = [[b for _, b in succs(bl)] for bl in self.blocks]
        self.pred = [[] for _ in range(self.n)]
        for i, ss in enumerate(self.succ):
            for s in ss:
                self.pred[s].append(i)
        self.reach = self._reach(0)
        self._dom = None
        self._pdom = None
        self._loops = None

    def _reach(self, start, avoid=()):
        seen = set()
        st = [start]
        while st:
            b = st.pop()
            if b in seen or b in avoid:
                continue
            seen.add(b)
            st.extend(self.succ[b])
        return seen

    def reachable_from(self, start, avoid=()):
        return self._reach(start, avoid)

    # ---------------------------------------------------------------- dominators
    def _compute_dom(self, entry_nodes, succ, pred, nodes):
        dom = {n: set(nodes) for n in nodes}
        for e in entry_nodes:
            dom[e] = {e}
        changed = True
        order = list(nodes)
        while changed:
            changed = False
            for n in order:
                if n in entry_nodes:
                    continue
                ps = [p for p in pred[n] if p in dom]
                if ps:
                    new = set.intersection(*(dom[p] for p in ps)) | {n}
                else:
                    new = {n}
                if new != dom[n]:
                    dom[n] = new
                    changed = True
        return dom

    @property
    def dom(self):
        if self._dom is None:
            nodes = sorted(self.reach)
            self._dom = self._compute_dom({0}, self.succ, self.pred, nodes)
        return self._dom

    def dominates(self, a, b):
        return b in self.dom and a in self.dom[b]

    @property
    def pdom(self):
        """post-dominators w.r.t. a virtual exit joined from all blocks without successors."""
        if self._pdom is None:
            nodes = sorted(self.reach)
            EXIT = -1
            succ = {n: list(self.succ[n]) for n in nodes}
            for n in nodes:
                if not succ[n]:
                    succ[n] = [EXIT]
            succ[EXIT] = []
            pred = {n: [] for n in nodes + [EXIT]}
            for n in nodes:
                for s in succ[n]:
                    pred[s].append(n)
            # dominators on reversed graph
            self._pdom = self._compute_dom({EXIT}, pred, succ, nodes + [EXIT])
        return self._pdom

    def postdominates(self, a, b):
        return a in self.pdom.get(b, ())

    def ipdom(self, b):
        """immediate post-dominator (or None)."""
        cands = self.pdom[b] - {b}
        for c in cands:
            if all(c == d or d in self.pdom[c] for d in cands):
                return c
        return None

    # --------------------------------------------------------------------- loops
    @property
    def loops(self):
        """list of (header, body set, back edges)"""
        if self._loops is None:
            res = {}
            for a in self.reach:
                for b in self.succ[a]:
                    if self.dominates(b, a):
                        body = {b}
                        st = [a]
                        while st:
                            x = st.pop()
                            if x in body:
                                continue
                            body.add(x)
                            st.extend(self.pred[x])
                        h = res.setdefault(b, [set(), []])
                        h[0] |= body
                        h[1].append((a, b))
            self._loops = [(h, v[0], v[1]) for h, v in sorted(res.items())]
        return self._loops

    def in_loop(self, b):
        return [h for h, body, _ in self.loops if b in body]

    # -------------------------------------------------------------------- edges
    def edge_dominates(self, src, dst, b):
        """every path entry->b passes the edge src->dst"""
        if not self.dominates(src, b) and src != b:
            pass
        # remove the edge and test reachability
        seen = set()
        st = [0]
        while st:
            x = st.pop()
            if x in seen:
                continue
            seen.add(x)
            for s in self.succ[x]:
                if x == src and s == dst:
                    # multi-edges src->dst with different labels are all removed; callers
                    # that need label precision use edge_label_dominates
                    continue
                st.append(s)
        return b not in seen

    def label_edges(self, src):
        return succs(self.blocks[src])

    def reach_avoiding_edges(self, start, avoid_edges):
        """blocks reachable from start when the (src, label-index) edges are removed.
        avoid_edges: set of (src, idx) where idx indexes label_edges(src)."""
        seen = set()
        st = [start]
        while st:
            x = st.pop()
            if x in seen:
                continue
            seen.add(x)
            for i, (_, s) in enumerate(self.label_edges(x)):
                if (x, i) in avoid_edges:
                    continue
                st.append(s)
        return seen


# ------------------------------------------------------------------ macro regions
def span_macros(span):
    return span.get("macros") or []


def is_tracing_span(span):
    ms = span_macros(span)
    return bool(ms) and ms[-1] in TRACING_MACROS


def tracing_invocation(span):
    """(file, line, col, eline, ecol) of the outermost tracing macro call, or None"""
    if is_tracing_span(span):
        return (span["file"], span["line"], span["col"], span["eline"], span.get("ecol", 10 ** 6))
    return None


def span_within(span, inv):
    if span["file"] != inv[0]:
        return False
    lo = (span["line"], span["col"])
    hi = (span["eline"], span.get("ecol", 0))
    return (inv[1], inv[2]) <= lo and hi <= (inv[3], inv[4])


def block_spans(block):
    items = [s["span"] for s in block["stmts"] if s["k"] in ("assign", "setdiscr")]
    items.append(block["term"]["span"])
    return items


def block_in_invocation(block, inv):
    """every statement and the terminator lie inside the source range of the macro call
    (expanded code, or the user's argument expressions)"""
    return all(span_within(sp, inv) for sp in block_spans(block))


def block_is_tracing(block):
    """the terminator comes from a tracing macro expansion"""
    return is_tracing_span(block["term"]["span"])


def block_is_neutral(block):
    t = block["term"]
    if t["k"] != "goto":
        return False
    return not any(s["k"] in ("assign", "setdiscr") for s in block["stmts"])


def tracing_region(cfg, entry):
    """If the *terminator* of `entry` belongs to the expansion of a tracing macro call
    (info!/warn!/...), return (region set, exit block): the blocks reachable from it whose
    code lies inside that call's source range (expanded code or the user's argument
    expressions), provided the region has a single exit.  Else None."""
    blocks = cfg.blocks
    inv = tracing_invocation(blocks[entry]["term"]["span"])
    if inv is None:
        return None
    region = set()
    exits = set()
    st = list(cfg.succ[entry])
    while st:
        b = st.pop()
        if b in region:
            continue
        bl = blocks[b]
        if block_in_invocation(bl, inv) or block_is_neutral(bl):
            region.add(b)
            st.extend(cfg.succ[b])
        else:
            exits.add(b)
    if len(exits) != 1:
        return None
    return region, next(iter(exits))


def term_callee(t):
    """(declared path, resolved path or None, fn json) of a call terminator, or None"""
    if t["k"] != "call":
        return None
    f = t["func"]
    if f["k"] == "const" and "fn" in f:
        fj = f["fn"]
        return fj["path"], fj.get("resolved"), fj
    return None
