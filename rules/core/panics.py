"""Panic inventory (DESIGN §2.6): panic-capable sites per body, reachability from entry sets."""
from . import cfg as cfgmod
from .sym import strip_all_generics, trait_method

PANIC_MACROS = {"assert", "assert_eq", "assert_ne", "panic", "unreachable", "unimplemented", "todo", "debug_assert",
                "debug_assert_eq", "debug_assert_ne"}

# callees that panic on some inputs (suffix match on the generic-stripped path / trait method)
PANICKING_CALLEES = {
    "Option::unwrap": "unwrap", "Option::expect": "expect", "Result::unwrap": "unwrap", "Result::expect": "expect",
    "Result::unwrap_err": "unwrap", "Option::unwrap_unchecked": "unwrap",
    "ops::Index::index": "index", "ops::IndexMut::index_mut": "index",
    "slice::copy_from_slice": "copy_from_slice", "slice::split_at": "split_at", "str::split_at": "split_at",
    "io::BufRead::consume": "consume", "Buf::advance": "advance",
    # bytes::Buf readers panic when fewer bytes remain than they need
    "Buf::get_u8": "buf_get", "Buf::get_i8": "buf_get", "Buf::get_u16": "buf_get", "Buf::get_u16_le": "buf_get", "Buf::get_u16_ne": "buf_get",
    "Buf::get_i16": "buf_get", "Buf::get_i16_le": "buf_get", "Buf::get_u32": "buf_get", "Buf::get_u32_le": "buf_get", "Buf::get_u32_ne": "buf_get",
    "Buf::get_i32": "buf_get", "Buf::get_i32_le": "buf_get", "Buf::get_u64": "buf_get", "Buf::get_u64_le": "buf_get", "Buf::get_u64_ne": "buf_get",
    "Buf::get_i64": "buf_get", "Buf::get_i64_le": "buf_get", "Buf::get_u128": "buf_get", "Buf::get_u128_le": "buf_get",
    "Buf::get_uint": "buf_get", "Buf::get_uint_le": "buf_get", "Buf::get_int": "buf_get", "Buf::get_int_le": "buf_get",
    "Buf::get_f32": "buf_get", "Buf::get_f64": "buf_get", "Buf::get_f32_le": "buf_get", "Buf::get_f64_le": "buf_get",
    "Buf::copy_to_slice": "buf_get", "Buf::copy_to_bytes": "buf_get", "BytesMut::split_to": "buf_get", "Bytes::split_to": "buf_get",
    "Bytes::split_off": "buf_get", "BytesMut::split_off": "buf_get", "Bytes::slice": "buf_get", "Bytes::truncate": None,
    "slice::split_at_mut": "split_at", "slice::copy_within": "copy_from_slice", "slice::rotate_left": "split_at", "slice::rotate_right": "split_at",
    "slice::chunks": "chunks", "slice::chunks_exact": "chunks", "slice::windows": "chunks", "slice::swap": "index",
    "Iterator::step_by": "chunks", "str::split_at": "split_at", "String::remove": "remove", "String::insert": "vec_insert",
    "String::insert_str": "vec_insert", "String::truncate": "drain", "String::split_off": "split_at", "Vec::split_off": "split_at",
    "VecDeque::swap": "index", "VecDeque::remove": None, "Vec::truncate": None, "char::from_digit": "from_digit",
    "u64::pow": "pow", "usize::pow": "pow", "u32::pow": "pow", "u64::div_ceil": "div", "usize::div_ceil": "div",
    "u64::rem_euclid": "div", "usize::rem_euclid": "div", "u64::div_euclid": "div", "usize::div_euclid": "div",
    "u64::next_power_of_two": "pow", "usize::next_power_of_two": "pow", "u64::abs_diff": None,
    "Duration::from_secs_f32": "from_secs_f64", "Instant::checked_add": None, "Option::unwrap_or_default": None,
    "u64::strict_add": "add", "u64::strict_sub": "sub",
    "Vec::drain": "drain", "Vec::remove": "remove", "Vec::swap_remove": "remove", "Vec::insert": "vec_insert",
    "String::drain": "drain",
    "ops::Add::add": "add", "ops::Sub::sub": "sub", "ops::Div::div": "div", "ops::Mul::mul": "mul",
    "Duration::div_f32": "div_f32", "Duration::div_f64": "div_f32", "Duration::mul_f32": "div_f32", "Duration::from_secs_f64": "from_secs_f64",
    "Instant::duration_since": None, "Instant::elapsed": None,   # saturating in tokio/std >= 1.60
    "RefCell::borrow_mut": "borrow", "RefCell::borrow": "borrow",
    "mpsc::UnboundedSender::send": None,
    "slice::sort_by": None,
}

ARITH_TYPES_PANIC = ("std::time::Instant", "tokio::time::Instant", "std::time::Duration")


def callee_kind(fj, declared, target):
    t = strip_all_generics(target)
    d = strip_all_generics(declared)
    tm = strip_all_generics(trait_method(target))
    for name in (t, d, tm):
        for suf, kind in PANICKING_CALLEES.items():
            if name.endswith(suf) or name.endswith("::" + suf):
                if kind in ("add", "sub", "div", "mul"):
                    args = (fj or {}).get("args") or []
                    if not any(a.lstrip("&") in ARITH_TYPES_PANIC for a in args[:1]):
                        return None
                if kind == "index" and any(a == "std::ops::RangeFull" for a in ((fj or {}).get("args") or [])):
                    return None         # x[..] is the whole slice: no bound to violate
                return kind
    return None


class PanicSite:
    def __init__(self, fn, block, kind, detail, span, term):
        self.fn = fn
        self.block = block
        self.kind = kind          # 'assert:BoundsCheck' | 'call:unwrap' | 'diverge:assert' ...
        self.detail = detail
        self.span = span
        self.term = term
        self.ordinal = 0

    @property
    def line(self):
        return self.span["line"]

    def key(self):
        return "%s/%s#%d" % (self.fn, self.kind, self.ordinal)

    def where(self):
        return "%s:%d (%s)" % (self.span["file"], self.span["line"], self.fn)

    def __repr__(self):
        return "<%s L%d %s>" % (self.key(), self.line, self.detail)


def fn_sites(fx, fid):
    f = fx.fns[fid]
    out = []
    for bi, b in enumerate(f["blocks"]):
        if b["cleanup"]:
            continue
        t = b["term"]
        k = t["k"]
        macros = t["span"].get("macros") or []
        if k == "assert":
            out.append(PanicSite(fid, bi, "assert:" + t["kind"], t["kind"], t["span"], t))
        elif k == "call":
            c = cfgmod.term_callee(t)
            if c is None:
                continue
            declared, resolved, fj = c
            target = resolved or declared
            if t["target"] is None:
                mac = [m for m in macros if m in PANIC_MACROS]
                nm = mac[-1] if mac else strip_all_generics(target).split("::")[-1]
                out.append(PanicSite(fid, bi, "diverge:" + nm, target, t["span"], t))
                continue
            kind = callee_kind(fj, declared, target)
            if kind:
                out.append(PanicSite(fid, bi, "call:" + kind, target, t["span"], t))
    counts = {}
    for s in out:
        s.ordinal = counts.get(s.kind, 0)
        counts[s.kind] = s.ordinal + 1
    return out


def reachable_sites(fx, cg, entries, stop=()):
    reach = cg.reachable(entries, stop=stop)
    out = []
    for fid in sorted(reach):
        out.extend(fn_sites(fx, fid))
    return reach, out


def operand_is_constant(fx, fid, site):
    """the panicking operand is computed from constants only (intra-procedural backward slice)"""
    f = fx.fns[fid]
    t = site.term
    if t["k"] == "assert":
        ops = [t["cond"]]
    else:
        ops = list(t["args"][:1])
    seen = set()
    work = []
    for o in ops:
        if o["k"] == "const":
            continue
        work.append(o["place"]["local"])
        if o["place"]["proj"]:
            pass
    argc = f["arg_count"]
    defs = {}
    for b in f["blocks"]:
        for s in b["stmts"]:
            if s["k"] == "assign" and not s["place"]["proj"]:
                defs.setdefault(s["place"]["local"], []).append(("stmt", s))
        tt = b["term"]
        if tt["k"] == "call" and not tt["dest"]["proj"]:
            defs.setdefault(tt["dest"]["local"], []).append(("call", tt))
    while work:
        l = work.pop()
        if l in seen:
            continue
        seen.add(l)
        if 1 <= l <= argc:
            return False
        if l not in defs:
            return False
        for kind, d in defs[l]:
            srcs = []
            if kind == "stmt":
                rv = d["rv"]
                for k in ("op", "a", "b"):
                    if k in rv and isinstance(rv[k], dict):
                        srcs.append(rv[k])
                for o in rv.get("ops", []):
                    srcs.append(o)
                if "place" in rv:
                    srcs.append({"k": "copy", "place": rv["place"]})
                if rv["k"] in ("other", "discriminant") and "place" not in rv:
                    return False
            else:
                srcs = list(d["args"])
                c = cfgmod.term_callee(d)
                if c is None:
                    return False
            for o in srcs:
                if o["k"] == "const":
                    continue
                if any(e["k"] == "deref" for e in o["place"]["proj"]):
                    # reading through a reference: not a constant unless the base is itself constant-derived
                    work.append(o["place"]["local"])
                else:
                    work.append(o["place"]["local"])
    return True


# ------------------------------------------------------------------ guard verification
from . import sym as _sym, tables as _T, orderenum as _oe
import itertools as _it


def _sym_roots(t):
    out = set()
    for s in _T.subterms(t):
        if s[0] in ("obj", "ptr") and s[1][0] == "S":
            out.add(s[1])
        if s[0] in ("obj", "ptr") and s[1][0] == "D":
            out |= _sym_roots(s[1][1])
    return out


def _same_buffer(eng, row, a, b):
    """two terms denote (views of) the same input buffer: they are derived from the same symbolic root"""
    ra = _sym_roots(_T.resolve_locals(eng, row.store, a))
    rb = _sym_roots(_T.resolve_locals(eng, row.store, b))
    return bool(ra & rb)


def _strip_d(x):
    while x[0] in ("ptr", "obj") and x[1][0] == "D" and (x[0] == "obj" or not x[2]):
        x = x[1][1]
    return x


def _buffer_value_at(eng, row, idx, bufarg):
    """the VALUE (version) of the buffer a call at event index idx operates on: for a pointer to a symbolic cell, the last
    value written to that cell before the call (a consume / advance writes a havoc value), else the original content"""
    b = bufarg
    if b[0] == "ptr" and b[1][0] == "S":
        val = None
        for e in row.events[:idx]:
            if e[0] == "write" and e[1] == b[1] and tuple(e[2]) == tuple(b[2]):
                val = e[3]
        if val is None:
            val = ("obj", b[1])
            for el in b[2]:
                val = _sym.proj(val, el)
        return _strip_d(val)
    return _strip_d(_T.resolve_locals(eng, row.store, b))


def _len_of_value(eng, row, operand, bufval):
    return _strip_d(_T.resolve_locals(eng, row.store, operand)) == bufval


def amount_of(e, kind):
    """(buffer arg, amount term) of a slicing / consuming call event"""
    args = e[2]
    if kind in ("consume", "advance", "drain", "split_at"):
        amt = args[1] if len(args) > 1 else None
        if amt is not None and amt[0] == "agg" and amt[2] is None and amt[1] and "Range" in amt[1]:
            amt = _T.field(amt, "end")
        return args[0], amt
    if kind == "index":
        rng = args[1] if len(args) > 1 else None
        if rng is not None and rng[0] == "agg" and rng[1] and "Range" in rng[1]:
            end = _T.field(rng, "end")
            start = _T.field(rng, "start")
            return args[0], end if end is not None else start
        return args[0], rng
    return (args[0] if args else None), None


def verify_len_guard(eng, rows, site_line, callee_suffix, kind):
    """every path reaching the site has `amount <= len(buffer)` implied by its conditions, either through comparisons
    with len(buffer) or through an earlier successful `get(..amount)` on the same buffer.  -> (ok, n_paths, why)"""
    n = 0
    for row in rows:
        for e in row.events:
            if e[0] != "call" or e[3][1] != site_line or not _sym.strip_all_generics(e[1]).endswith(callee_suffix):
                continue
            n += 1
            buf, amt = amount_of(e, kind)
            if amt is None:
                return False, n, "cannot identify the amount"
            idx = row.events.index(e)
            amt_r = _T.resolve_locals(eng, row.store, amt)
            bufval = _buffer_value_at(eng, row, idx, buf)
            # (a) earlier successful get(..amt) on the same buffer, with the success on the path condition
            ok = False
            for g in row.events[:idx]:
                if g[0] == "call" and _sym.strip_all_generics(g[1]).split("::")[-1] == "get" and len(g[2]) > 1:
                    gb, ga = amount_of(("call", g[1], g[2]), "index")
                    is_len_of_slice = ((amt_r[0] == "call" and _sym.strip_all_generics(amt_r[1]).endswith("::len")) or (amt_r[0] == "un" and amt_r[1] == "len")) and any(
                        s[0] == "call" and _sym.strip_all_generics(s[1]).split("::")[-1] == "get" for s in _T.subterms(amt_r))
                    if ga is not None and (_T.resolve_locals(eng, row.store, ga) == amt_r or is_len_of_slice) and _buffer_value_at(eng, row, row.events.index(g), gb) == bufval:
                        gterm = [s for c in row.cond for s in _T.subterms(c[1]) if s[0] == "call" and s[1] == g[1] and s[2] == g[2]]
                        succ = any(c[0] == "variant" and c[3] and c[2] in ("Some", "Ok") and any(
                            s[0] == "call" and s[1] == g[1] for s in _T.subterms(c[1])) for c in row.cond)
                        if succ:
                            ok = True
            if ok:
                continue
            # (b) comparisons with len(buffer)
            lens = []
            for c in row.cond:
                for s in _T.subterms(c[1]):
                    if (s[0] == "call" and _sym.strip_all_generics(s[1]).endswith("::len") and s[2] and _len_of_value(eng, row, s[2][0], bufval)) or (
                            s[0] == "un" and s[1] == "len" and _len_of_value(eng, row, s[2], bufval)):
                        if s not in lens:
                            lens.append(s)
            if not lens:
                return False, n, "no length check of the buffer dominates the site at line %d" % site_line

            def canon(t):
                if t in lens:
                    return _T.R("len")
                if t == amt or t == amt_r:
                    return _T.R("amt")
                return None
            implied = True
            relevant = []
            for c in row.cond:
                cc = _T.rewrite_cond(c, canon)
                ats = _oe.cond_atoms(cc, [])
                if c[0] == "truth" and ats and all(a in (_T.R("len"), _T.R("amt")) for a in ats):
                    relevant.append(cc)
            amt_const = amt_r[1] if amt_r[0] == "c" else None
            for L, A in _it.product(range(0, 6), repeat=2):
                if amt_const is not None and A != amt_const:
                    continue
                asg = {_T.R("len"): L, _T.R("amt"): A}
                if all(_oe.holds(c, asg) for c in relevant) and not A <= L:
                    implied = False
            if amt_const is not None and amt_const > 5:
                implied = False
            if not implied or not relevant:
                return False, n, "amount %s is not bounded by the buffer length on a path to line %d" % (_sym.fmt(amt_r)[:40], site_line)
    if n == 0:
        return False, 0, "site not found in the table"
    return True, n, ""


def verify_bounds_assert(eng, rows, site_line):
    """BoundsCheck assertion at `site_line` is implied by the path conditions (index < len)"""
    n = 0
    for row in rows:
        for e in row.events:
            if e[0] != "assert" or not e[1].startswith("BoundsCheck") or e[4][1] != site_line:
                continue
            n += 1
            cond = e[2]
            lens = [s for s in _T.subterms(cond) if s[0] == "un" and s[1] == "len"]
            if not lens:
                return False, n, "bounds check without a length operand"

            # only lengths of the SAME buffer value count: after `consume` / `advance` the buffer is a different (havoc)
            # value and an earlier length check says nothing about it (seed R2-C19-2)
            def root(x):
                x = _T.resolve_locals(eng, row.store, x)
                while x[0] in ("ptr", "obj") and x[1][0] == "D" and (x[0] == "obj" or not x[2]):
                    x = x[1][1]
                return x
            want_root = root(lens[0][2])

            def canon(t):
                if t[0] == "call" and _sym.strip_all_generics(t[1]).endswith("::len") and t[2] and root(t[2][0]) == want_root:
                    return _T.R("len")
                if t[0] == "un" and t[1] == "len" and root(t[2]) == want_root:
                    return _T.R("len")
                return None
            cc = _T.rewrite(cond, canon)
            rel = []
            for c in row.cond:
                c2 = _T.rewrite_cond(c, canon)
                ats = _oe.cond_atoms(c2, [])
                if c[0] == "truth" and ats and all(a == _T.R("len") for a in ats):
                    rel.append(c2)
            if not rel:
                return False, n, "no length check dominates the indexing at line %d" % site_line
            for L in range(0, 8):
                asg = {_T.R("len"): L}
                try:
                    if all(_oe.holds(c, asg) for c in rel) and bool(_oe.ev(cc, asg)) != e[3]:
                        return False, n, "index can be out of bounds when len = %d" % L
                except _oe.NeedAtom:
                    return False, n, "index is not a constant"
    if n == 0:
        return False, 0, "site not found in the table"
    return True, n, ""
