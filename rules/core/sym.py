"""Decision-table extraction: gated value terms per path of a (loop-cut) MIR CFG.

This is a dataflow analysis over `mir_built` producing, for an anchored function, the
list of rows  (guard  =>  return term, writes, calls)  — *terms over atoms*, never concrete
values.  Nothing of the analysed program is executed; the extracted terms are later
compared with the expected decision on a finite ordering grid (orderenum.py).

Terms (hashable tuples):
  ('c', v)                         constant (int/bool/str/None)
  ('obj', root)                    symbolic object (function argument, deref of opaque)
  ('proj', t, elem)                uninterpreted field / downcast projection
  ('upd', t, path, v)              functional update of an uninterpreted value
  ('agg', adt, variant, fields)    struct/enum/tuple literal; fields = ((name, t), ...)
  ('closure', def, fields)
  ('ptr', root, path)              reference
  ('op', name, a, b) ('un', name, a) ('cast', ty, a) ('ite', c, a, b)
  ('call', path, args, uniq)       result of an unsummarised call
  ('discr', t)                     discriminant of an uninterpreted enum value
  ('loopvar', key)                 value of a place at a loop head (unknown iteration)
Elems: ('f', adt, name) field, ('v', variant) downcast, ('i',) index, ('d',) deref
"""
import sys
from . import cfg as cfgmod
from .facts import fmt_place

sys.setrecursionlimit(20000)

MAX_PATHS = 4000
MAX_DEPTH = 8


class Unanalysable(Exception):
    pass


def C(v):
    return ("c", v)


TRUE = C(True)
FALSE = C(False)
UNIT = C(None)


# ------------------------------------------------------------------ term algebra
def proj(t, elem):
    k = t[0]
    if k == "agg":
        if elem[0] == "f":
            for n, v in t[3]:
                if n == elem[2]:
                    return v
            return ("proj", t, elem)
        if elem[0] == "v":
            return t  # downcast of a literal: variant checked by the switch
    if k == "closure" and elem[0] == "f":
        for n, v in t[2]:
            if n == elem[2]:
                return v
    if k == "upd":
        _, base, path, val = t
        if path[0] == elem:
            if len(path) == 1:
                return val
            return ("upd", proj(base, elem), path[1:], val)
        if path[0][0] == "v" or elem[0] == "v":
            # downcasts are transparent w.r.t. updates of other elems
            if path[0][0] == "v" and elem[0] != "v":
                return ("proj", t, elem)
            return ("upd", proj(base, elem), path, val) if elem[0] == "v" else proj(base, elem)
        return proj(base, elem)
    if k == "ite":
        return ite(t[1], proj(t[2], elem), proj(t[3], elem))
    return ("proj", t, elem)


def update(t, path, val):
    if not path:
        return val
    e = path[0]
    if t[0] == "agg" and e[0] == "f":
        fields = list(t[3])
        for i, (n, v) in enumerate(fields):
            if n == e[2]:
                fields[i] = (n, update(v, path[1:], val))
                return ("agg", t[1], t[2], tuple(fields))
        fields.append((e[2], update(("proj", t, e), path[1:], val)))
        return ("agg", t[1], t[2], tuple(fields))
    if t[0] == "agg" and e[0] == "v":
        return update(t, path[1:], val)
    return ("upd", t, tuple(path), val)


def ite(c, a, b):
    if c == TRUE:
        return a
    if c == FALSE:
        return b
    if a == b:
        return a
    return ("ite", c, a, b)


def neg(t):
    if t[0] == "c":
        return C(not t[1])
    if t[0] == "un" and t[1] == "Not":
        return t[2]
    return ("un", "Not", t)


CMP = {"Lt", "Le", "Gt", "Ge", "Eq", "Ne"}


def binop(op, a, b):
    if a[0] == "dconst" and b[0] == "dconst" and op in ("Eq", "Ne", "Lt", "Le", "Gt", "Ge"):
        # two known enum discriminants (derived PartialEq / PartialOrd on a value whose variant the path already fixed)
        try:
            return C(concrete_binop(op, a[1], b[1]))
        except Exception:
            pass
    if a[0] == "c" and b[0] == "c" and isinstance(a[1], (int, bool)) and isinstance(b[1], (int, bool)):
        try:
            return C(concrete_binop(op, a[1], b[1]))
        except Exception:
            pass
    return ("op", op, a, b)


def concrete_binop(op, x, y):
    if op == "Lt":
        return x < y
    if op == "Le":
        return x <= y
    if op == "Gt":
        return x > y
    if op == "Ge":
        return x >= y
    if op == "Eq":
        return x == y
    if op == "Ne":
        return x != y
    if op in ("Add", "AddWithOverflow", "AddUnchecked"):
        return x + y
    if op in ("Sub", "SubWithOverflow", "SubUnchecked"):
        return x - y
    if op in ("Mul", "MulWithOverflow", "MulUnchecked"):
        return x * y
    if op == "Div":
        return x // y if isinstance(x, int) and isinstance(y, int) else x / y
    if op == "Rem":
        return x % y
    if op == "BitOr":
        return x | y
    if op == "BitAnd":
        return x & y
    if op == "BitXor":
        return x ^ y
    if op == "max":
        return max(x, y)
    if op == "min":
        return min(x, y)
    raise ValueError(op)


# ------------------------------------------------------------------ pretty printing
def fmt_root(r):
    if r[0] == "S":
        return str(r[1])
    if r[0] == "L":
        return "_%s#%s" % (r[2], r[1])
    if r[0] == "D":
        return "*(%s)" % fmt(r[1])
    if r[0] == "R":
        return str(r[1])
    return str(r)


def fmt_elem(e):
    if e[0] == "f":
        return "." + str(e[2])
    if e[0] == "v":
        return "@" + str(e[1])
    if e[0] == "i":
        return "[]"
    return "." + str(e)


OPSYM = {"Lt": "<", "Le": "<=", "Gt": ">", "Ge": ">=", "Eq": "==", "Ne": "!=", "Add": "+", "Sub": "-",
         "AddWithOverflow": "+", "SubWithOverflow": "-", "Mul": "*", "MulWithOverflow": "*", "Div": "/",
         "BitOr": "|", "BitAnd": "&"}


def fmt(t):
    k = t[0]
    if k == "c":
        return repr(t[1]) if not isinstance(t[1], bool) else str(t[1]).lower()
    if k == "obj":
        return fmt_root(t[1])
    if k == "proj":
        return fmt(t[1]) + fmt_elem(t[2])
    if k == "upd":
        return "%s{%s:=%s}" % (fmt(t[1]), "".join(fmt_elem(e) for e in t[2]), fmt(t[3]))
    if k == "agg":
        name = (t[1] or "").split("::")[-1]
        if t[2]:
            name = (name + "::" if name and name not in ("<tuple>",) else "") + str(t[2])
        return "%s{%s}" % (name, ", ".join("%s: %s" % (n, fmt(v)) for n, v in t[3]))
    if k == "closure":
        return "closure<%s>" % t[1].split("::")[-1]
    if k == "ptr":
        return "&%s%s" % (fmt_root(t[1]), "".join(fmt_elem(e) for e in t[2]))
    if k == "op":
        if t[1] in OPSYM:
            return "(%s %s %s)" % (fmt(t[2]), OPSYM[t[1]], fmt(t[3]))
        return "%s(%s, %s)" % (t[1], fmt(t[2]), fmt(t[3]))
    if k == "un":
        return "%s(%s)" % ("!" if t[1] == "Not" else t[1], fmt(t[2]))
    if k == "cast":
        return "(%s as %s)" % (fmt(t[2]), t[1])
    if k == "ite":
        return "ite(%s, %s, %s)" % (fmt(t[1]), fmt(t[2]), fmt(t[3]))
    if k == "call":
        return "%s(%s)%s" % (short(t[1]), ", ".join(fmt(a) for a in t[2]), "#%s" % t[3] if t[3] is not None else "")
    if k == "discr":
        return "discr(%s)" % fmt(t[1])
    if k == "loopvar":
        return "loop<%s>" % (t[1],)
    if k == "undef":
        return "undef"
    if k == "moved":
        return "<moved>"
    return str(t)


def short(path):
    p = path
    if p.startswith("<") and " as " in p:
        return p
    parts = p.split("::")
    return "::".join(parts[-2:])


def fmt_cond(c):
    if c[0] == "truth":
        return fmt(c[1]) if c[2] else "!" + fmt(c[1])
    if c[0] == "variant":
        return "%s is %s" % (fmt(c[1]), c[2]) if c[3] else "%s is not %s" % (fmt(c[1]), "|".join(c[2]))
    if c[0] == "inteq":
        return "%s == %s" % (fmt(c[1]), c[2]) if c[3] else "%s not in %s" % (fmt(c[1]), list(c[2]))
    return str(c)


# ------------------------------------------------------------------ path state
class St:
    __slots__ = ("store", "cond", "events", "facts", "loops", "uniq")

    def __init__(self):
        self.store = {}
        self.cond = []
        self.events = []
        self.facts = []
        self.loops = ()
        self.uniq = [0]

    def fork(self):
        s = St()
        s.store = dict(self.store)
        s.cond = list(self.cond)
        s.events = list(self.events)
        s.facts = list(self.facts)
        s.loops = self.loops
        s.uniq = self.uniq
        return s


class Row:
    """One row of a decision table."""

    def __init__(self, st, exit_kind, ret=None, site=None):
        self.cond = st.cond
        self.events = st.events
        self.facts = st.facts
        self.exit = exit_kind  # 'return' | 'panic' | 'backedge' | 'diverge'
        self.ret = ret
        self.site = site
        self.store = st.store

    def calls(self, pred=None):
        out = [e for e in self.events if e[0] == "call"]
        if pred:
            out = [e for e in out if pred(e)]
        return out

    def writes(self):
        return [e for e in self.events if e[0] == "write"]

    def describe(self):
        return {
            "guard": [fmt_cond(c) for c in self.cond],
            "exit": self.exit,
            "ret": fmt(self.ret) if self.ret is not None else None,
            "writes": ["%s%s := %s" % (fmt_root(e[1]), "".join(fmt_elem(x) for x in e[2]), fmt(e[3])) for e in self.writes()],
            "calls": [short(e[1]) for e in self.calls()],
        }


# ------------------------------------------------------------------ the engine
# bodies whose MIR some engine walked in this process (coverage map, see tools/coverage_map.py)
ANALYSED_BODIES = set()
# adaptors of iterator pipelines that the engine modelled element by element (root fn, kind, closure id): not "unreviewed" for RA.1
FUSED_ADAPTORS = set()


class Engine:
    def __init__(self, fx, summaries=None, no_inline=(), inline_only=None, max_depth=MAX_DEPTH,
                 assume_no_overflow=True, opaque_pure=()):
        self.fx = fx
        self.cfgs = {}
        self.no_inline = set(no_inline)
        self.inline_only = inline_only
        self.max_depth = max_depth
        self.frame_counter = 0
        self.paths = 0
        self.assume_no_overflow = assume_no_overflow
        self.loop_modsets = {}
        self.summaries = dict(DEFAULT_SUMMARIES)
        if summaries:
            self.summaries.update(summaries)
        self.opaque_pure = set(opaque_pure)
        self.notes = []
        self.in_discovery = set()
        self.fuse_iterators = True
        self.track_moves = False
        self.own_closures_only = False
        self.top_root = None

    def cfg(self, fid):
        if fid not in self.cfgs:
            ANALYSED_BODIES.add(fid)
            self.cfgs[fid] = cfgmod.CFG(self.fx.fns[fid])
        return self.cfgs[fid]

    # ---------------------------------------------------------------- top level
    def table(self, fid, arg_terms=None, start_block=0, stop_blocks=()):
        """decision table (list of Row) of function `fid`."""
        fn = self.fx.fns[fid]
        self.top_root = self.fx.root_fn(fid)
        st = St()
        frame = self.new_frame(fn)
        names = arg_names(fn)
        for i in range(1, fn["arg_count"] + 1):
            loc = fn["locals"][i]
            root = ("L", frame["id"], i)
            if arg_terms and i in arg_terms:
                st.store[root] = arg_terms[i]
                continue
            nm = names.get(i, "arg%d" % i)
            if loc["ty"].startswith("&"):
                st.store[root] = ("ptr", ("S", nm), ())
            else:
                st.store[root] = ("obj", ("S", nm))
        rows = []
        self.paths = 0
        self.callee_backedges = []
        for st2, kind, ret, site in self.run(frame, start_block, st, 0, stop_blocks=frozenset(stop_blocks)):
            rows.append(Row(st2, kind, ret, site))
        # loop-body paths of loops that live in an inlined callee (e.g. a loop moved into a helper): they end at the callee's
        # back edge and are reported as loop-body rows of this table, exactly like the bodies of the function's own loops
        seen = set()
        for st2, site in self.callee_backedges:
            k = (tuple(st2.cond), len(st2.events), site)
            if k in seen:
                continue
            seen.add(k)
            rows.append(Row(st2, "backedge", None, site))
        return rows

    def new_frame(self, fn):
        self.frame_counter += 1
        return {"id": self.frame_counter, "fn": fn, "cfg": self.cfg(fn["id"])}

    # ---------------------------------------------------------------- places
    def resolve(self, frame, st, place):
        """-> (root, path tuple)"""
        root = ("L", frame["id"], place["local"])
        path = ()
        for e in place["proj"]:
            k = e["k"]
            if k == "deref":
                v = self.read_rp(st, root, path)
                root, path = self.deref(v)
            elif k == "field":
                path = path + (("f", e.get("adt"), str(e.get("name", e["idx"]))),)
            elif k == "downcast":
                path = path + (("v", e.get("variant", e["idx"])),)
            elif k in ("index", "constindex", "subslice"):
                path = path + (("i",),)
            else:
                path = path + ((k,),)
        return root, path

    def deref(self, v):
        if v[0] == "ptr":
            return v[1], v[2]
        if v[0] == "ite":
            # pointer chosen by a condition: treat target as opaque
            return ("D", v), ()
        return ("D", v), ()

    def read_rp(self, st, root, path):
        base = st.store.get(root)
        if base is None:
            if root[0] in ("S", "D"):
                base = ("obj", root)
            else:
                base = ("undef", root)
        for e in path:
            base = proj(base, e)
        return base

    def read(self, frame, st, place):
        root, path = self.resolve(frame, st, place)
        return self.read_rp(st, root, path)

    def write_rp(self, st, root, path, val, site=None, log=True):
        base = st.store.get(root)
        if base is None:
            base = ("obj", root) if root[0] in ("S", "D") else ("undef", root)
        st.store[root] = update(base, path, val)
        if log and root[0] != "L":
            st.events.append(("write", root, path, val, site))
        elif log:
            st.events.append(("lwrite", root, path, val, site))

    def write(self, frame, st, place, val, site=None):
        root, path = self.resolve(frame, st, place)
        self.write_rp(st, root, path, val, site)

    # ---------------------------------------------------------------- operands
    def operand(self, frame, st, o):
        k = o["k"]
        if k == "copy":
            return self.read(frame, st, o["place"])
        if k == "move":
            v = self.read(frame, st, o["place"])
            pl = o["place"]
            # a moved-from local no longer owns the value (matters for unelaborated drops in mir_built)
            if not any(e["k"] == "deref" for e in pl["proj"]) and self.track_moves and v[0] != "ptr":
                root, path = self.resolve(frame, st, pl)
                self.write_rp(st, root, path, ("moved",), log=False)
            return v
        if k == "const":
            if "fn" in o:
                return ("fnptr", o["fn"].get("resolved") or o["fn"]["path"])
            if "val" in o:
                if o["ty"] == "bool":
                    return C(bool(o["val"]))
                return C(o["val"])
            r = o.get("repr", "")
            if r == "()":
                return UNIT
            if o["ty"] in ("f64", "f32") and (r.endswith("f64") or r.endswith("f32")):
                try:
                    from fractions import Fraction
                    return C(Fraction(r[:-3]))
                except Exception:
                    pass
            if r.startswith('"'):
                return C(r.strip('"'))
            if o.get("unevaluated"):
                return ("const", o["unevaluated"])
            return ("const", r)
        return ("undef", "operand")

    def rvalue(self, frame, st, rv):
        k = rv["k"]
        if k == "use":
            return self.operand(frame, st, rv["op"])
        if k in ("ref", "rawptr"):
            root, path = self.resolve(frame, st, rv["place"])
            return ("ptr", root, path)
        if k == "binop":
            a = self.operand(frame, st, rv["a"])
            b = self.operand(frame, st, rv["b"])
            op = rv["op"]
            if op.endswith("WithOverflow"):
                val = binop(op[:-len("WithOverflow")], a, b)
                return ("agg", "<tuple>", None, (("0", val), ("1", ("ovf", op, a, b))))
            if op == "Cmp":
                return ("op", "Cmp", a, b)
            return binop(op, a, b)
        if k == "unop":
            a = self.operand(frame, st, rv["a"])
            if rv["op"] == "Not":
                return neg(a)
            if rv["op"] == "PtrMetadata":
                return ("un", "len", a)
            return ("un", rv["op"], a)
        if k == "cast":
            a = self.operand(frame, st, rv["op"])
            c = rv["cast"]
            if c in ("IntToInt", "IntToFloat", "FloatToInt", "FloatToFloat"):
                if a[0] == "c" and isinstance(a[1], bool):
                    a = C(int(a[1]))
                return ("cast", rv["ty"], a)
            return a  # pointer coercions, unsizing, transmute of refs: value-preserving
        if k == "discriminant":
            v = self.read(frame, st, rv["place"])
            return self.discr_of(v, rv["variants"])
        if k == "aggregate":
            ops = [self.operand(frame, st, o) for o in rv["ops"]]
            agg = rv["agg"]
            if agg == "tuple":
                return ("agg", "<tuple>", None, tuple((str(i), v) for i, v in enumerate(ops)))
            if agg == "array":
                return ("agg", "<array>", None, tuple((str(i), v) for i, v in enumerate(ops)))
            if agg == "adt":
                names = rv["fields"]
                return ("agg", rv["adt"], rv["variant"], tuple(zip([str(n) for n in names], ops)))
            if agg in ("closure", "coroutine", "coroutineclosure"):
                names = rv.get("fields") or [str(i) for i in range(len(ops))]
                names = [str(n) for n in names]
                muts = tuple(n for n, o in zip(names, rv["ops"])
                             if o["k"] in ("copy", "move") and o["place"]["ty"].startswith("&mut"))
                return ("closure", rv["def"], tuple(zip(names, ops)), muts)
            return ("undef", "aggregate")
        if k == "repeat":
            return ("agg", "<array>", None, (("*", self.operand(frame, st, rv["op"])),))
        return ("undef", k)

    def discr_of(self, v, variants):
        if v[0] == "agg" and v[2] is not None:
            for name, d in variants:
                if name == v[2]:
                    return ("dconst", d, v[2])
        if v[0] == "ite":
            return ite(v[1], self.discr_of(v[2], variants), self.discr_of(v[3], variants))
        return ("discr", v, tuple((n, d) for n, d in variants))

    # ---------------------------------------------------------------- execution
    def run(self, frame, b, st, depth, stop_blocks=frozenset()):
        """generator of (state, exit kind, return value, site) for paths from block b"""
        fn = frame["fn"]
        cfg = frame["cfg"]
        blocks = fn["blocks"]
        loop_heads = {h: (body, be) for h, body, be in cfg.loops}
        while True:
            if b in stop_blocks:
                yield st, "stop", None, b
                return
            # loop handling
            if b in loop_heads:
                key = (frame["id"], b)
                if key in st.loops:
                    yield st, "backedge", None, (fn["id"], b)
                    return
                if key not in self.in_discovery:
                    self.in_discovery.add(key)
                    try:
                        self.enter_loop(frame, b, st, depth, loop_heads[b][0])
                    finally:
                        self.in_discovery.discard(key)
                st.loops = st.loops + (key,)
            bl = blocks[b]
            for s in bl["stmts"]:
                if s["k"] == "assign":
                    v = self.rvalue(frame, st, s["rv"])
                    self.write(frame, st, s["place"], v, site=(fn["id"], s["span"]["line"]))
                elif s["k"] == "setdiscr":
                    pass
            t = bl["term"]
            k = t["k"]
            site = (fn["id"], t["span"]["line"])
            # tracing macro regions are skipped (no tracked effect; checked)
            if cfgmod.is_tracing_span(t["span"]):
                reg = cfgmod.tracing_region(cfg, b)
                if reg is not None and self.region_is_effect_free(frame, reg[0] | {b}):
                    b = reg[1]
                    continue
            if k in ("goto", "falseedge", "falseunwind"):
                b = t["target"]
                continue
            if k == "drop":
                rp = self.resolve(frame, st, t["place"])
                st.events.append(("drop", t["place"]["ty"], rp, site, self.read_rp(st, rp[0], rp[1])))
                b = t["target"]
                continue
            if k == "return":
                ret = self.read_rp(st, ("L", frame["id"], 0), ())
                yield st, "return", ret, site
                return
            if k in ("unreachable",):
                yield st, "unreachable", None, site
                return
            if k == "assert":
                cond = self.operand(frame, st, t["cond"])
                st.events.append(("assert", t["kind"], cond, t["expected"], site))
                if cond[0] == "ovf" or t["kind"].startswith("Overflow"):
                    if not self.assume_no_overflow:
                        s2 = st.fork()
                        s2.cond.append(("truth", cond, not t["expected"]))
                        yield s2, "panic", None, ("assert", t["kind"], site)
                b = t["target"]
                continue
            if k == "switch":
                d = self.operand(frame, st, t["discr"])
                outs = self.switch(st, d, t)
                if len(outs) == 1:
                    st, b = outs[0]
                    continue
                for s2, tb in outs:
                    self.bump()
                    yield from self.run(frame, tb, s2, depth, stop_blocks)
                return
            if k == "call":
                outs = list(self.call(frame, st, t, depth, site))
                if t["target"] is None:
                    for s2, _ in outs:
                        yield s2, "panic", None, ("diverging-call", self.callee_name(t), site)
                    return
                if len(outs) == 1:
                    st, rv = outs[0]
                    self.write(frame, st, t["dest"], rv, site)
                    b = t["target"]
                    continue
                for s2, rv in outs:
                    self.bump()
                    if rv is PANIC:
                        yield s2, "panic", None, ("callee-panic", self.callee_name(t), site)
                        continue
                    self.write(frame, s2, t["dest"], rv, site)
                    yield from self.run(frame, t["target"], s2, depth, stop_blocks)
                return
            if k == "yield":
                st.events.append(("yield", site))
                b = t["target"]
                continue
            yield st, k, None, site
            return

    def bump(self):
        self.paths += 1
        if self.paths > MAX_PATHS:
            raise Unanalysable("path budget exceeded")

    def region_is_effect_free(self, frame, region):
        fn = frame["fn"]
        key = ("region", fn["id"], min(region))
        if key in self.loop_modsets:
            return self.loop_modsets[key]
        ok = True
        for b in region:
            t = fn["blocks"][b]["term"]
            if t["k"] == "call":
                c = cfgmod.term_callee(t)
                if c is None:
                    ok = False
                    break
                path, resolved, fj = c
                tgt = resolved or path
                if tgt in self.fx.fns:
                    callee = self.fx.fns[tgt]
                    if callee["kind"] == "closure":
                        continue  # tracing's own dispatch closure, defined in the expansion
                    if any(i.startswith("&mut") for i in callee.get("inputs", [])):
                        ok = False
                        break
                elif not (tgt.startswith("tracing::") or "tracing::" in tgt.split(" as ")[-1]
                          or tgt.startswith("core::fmt") or tgt.startswith("std::fmt")):
                    if any(a["k"] in ("copy", "move") and a["place"]["ty"].startswith("&mut") for a in t["args"]):
                        ok = False
                        break
            elif t["k"] in ("return", "yield"):
                ok = False
                break
            for s in fn["blocks"][b]["stmts"]:
                if s["k"] == "assign" and any(e["k"] == "deref" for e in s["place"]["proj"]):
                    ok = False
        self.loop_modsets[key] = ok
        return ok

    # ---------------------------------------------------------------- switches
    def switch(self, st, d, t):
        targets = t["targets"]
        otherwise = t["otherwise"]
        if d[0] == "c":
            v = int(d[1]) if isinstance(d[1], bool) else d[1]
            for val, tb in targets:
                if val == v:
                    return [(st, tb)]
            return [(st, otherwise)]
        if d[0] == "dconst":
            for val, tb in targets:
                if val == d[1]:
                    return [(st, tb)]
            return [(st, otherwise)]
        if d[0] == "cast" and d[2][0] == "c":
            return self.switch(st, d[2], t)
        outs = []
        if d[0] == "discr":
            vnames = {dv: n for n, dv in d[2]}
            # known variant by earlier constraint?
            known = None
            excluded = set()
            for c in st.cond:
                if c[0] == "variant" and c[1] == d[1]:
                    if c[3]:
                        known = c[2]
                    else:
                        excluded |= set(c[2])
            listed = []
            for val, tb in targets:
                name = vnames.get(val, val)
                listed.append(name)
                if known is not None:
                    if known == name:
                        return [(st, tb)]
                    continue
                if name in excluded:
                    continue
                s2 = st.fork()
                s2.cond.append(("variant", d[1], name, True))
                outs.append((s2, tb))
            if known is not None:
                return [(st, otherwise)]
            remaining = [n for n in vnames.values() if n not in listed and n not in excluded]
            if remaining:
                s2 = st.fork()
                if len(remaining) == 1:
                    s2.cond.append(("variant", d[1], remaining[0], True))
                else:
                    s2.cond.append(("variant", d[1], tuple(listed), False))
                outs.append((s2, otherwise))
            return outs
        if t.get("discr_ty") == "bool" or (t.get("discr_ty") is None and len(targets) == 1 and targets[0][0] == 0):
            # bool switch: [0: F, otherwise: T]
            fb = targets[0][1]
            # already decided on this path?
            for c in st.cond:
                if c[0] == "truth" and c[1] == d:
                    return [(st, otherwise if c[2] else fb)]
            # `x == K1` is false on a path where `x == K2` (K2 != K1) holds: successive `if status == A {..} if status == B {..}`
            # on the same value must not produce the path "is A and is B"
            if d[0] == "op" and d[1] == "Eq":
                for lhs, k in ((d[2], d[3]), (d[3], d[2])):
                    if k[0] in ("c", "dconst"):
                        for c in st.cond:
                            if c[0] == "truth" and c[2] is True and c[1][0] == "op" and c[1][1] == "Eq":
                                for l2, k2 in ((c[1][2], c[1][3]), (c[1][3], c[1][2])):
                                    if l2 == lhs and k2[0] in ("c", "dconst") and k2 != k:
                                        return [(st, fb)]
            s_t = st.fork()
            s_t.cond.append(("truth", d, True))
            s_f = st.fork()
            s_f.cond.append(("truth", d, False))
            return [(s_f, fb), (s_t, otherwise)]
        # integer switch on an opaque value
        vals = []
        for val, tb in targets:
            s2 = st.fork()
            s2.cond.append(("inteq", d, val, True))
            outs.append((s2, tb))
            vals.append(val)
        s2 = st.fork()
        s2.cond.append(("inteq", d, tuple(vals), False))
        outs.append((s2, otherwise))
        return outs

    # ---------------------------------------------------------------- loops
    def enter_loop(self, frame, head, st, depth, body):
        """havoc every place written by one iteration (discovered by a dry run, iterated to a
        fixpoint) so that the state at the head stands for 'after any number of iterations'."""
        key = ("loop", frame["fn"]["id"], head)
        fid = frame["id"]
        # start from what earlier visits of this loop (on other paths) found: converges in one dry run
        modset = set()
        for _ in range(6):
            s0 = st.fork()
            s0.events = []
            s0.loops = tuple(k for k in st.loops if k != (fid, head))
            self.havoc(s0, modset, fid, head)
            found = set()
            exits = self.loop_exit_blocks(frame, body)
            saved_paths = self.paths
            for s2, kind, ret, site in self.run(frame, head, s0, depth, stop_blocks=frozenset(exits)):
                pass_events = s2.events
                for e in pass_events:
                    if e[0] in ("write", "lwrite"):
                        found.add((e[1], e[2]))
            self.paths = saved_paths
            # keep only places that existed before the loop or are non-local
            found = {(r, p) for (r, p) in found if r[0] != "L" or r[1] != fid or r in st.store}
            # temporaries of this frame that are (re)assigned in every iteration before use need
            # no havoc, but havocking them is harmless.
            if found <= modset:
                break
            modset |= found
        self.loop_modsets[key] = {(self._rebase(r, None), p) for (r, p) in modset} | set(self.loop_modsets.get(key, ()))
        self.havoc(st, modset, fid, head)
        st.events.append(("loop", frame["fn"]["id"], head, tuple(sorted(modset, key=str))))

    @staticmethod
    def _rebase(root, fid):
        """frame-local roots are stored frame-independently (frame id None) and re-instantiated per visit"""
        if root[0] == "L":
            return ("L", fid, root[2]) if root[1] is None or fid is None else root
        return root

    def loop_exit_blocks(self, frame, body):
        cfg = frame["cfg"]
        exits = set()
        for b in body:
            for s in cfg.succ[b]:
                if s not in body:
                    exits.add(s)
        return exits

    def havoc(self, st, modset, fid, head):
        for root, path in sorted(modset, key=str):
            entry = self.read_rp(st, root, path)
            lv = ("loopvar", (fid, head, fmt_root(root) + "".join(fmt_elem(e) for e in path)), entry)
            self.write_rp(st, root, path, lv, log=False)

    # ---------------------------------------------------------------- calls
    def callee_name(self, t):
        c = cfgmod.term_callee(t)
        if c is None:
            return "<indirect>"
        return c[1] or c[0]

    def call(self, frame, st, t, depth, site):
        """generator of (state, return value)"""
        args = [self.operand(frame, st, a) for a in t["args"]]
        c = cfgmod.term_callee(t)
        if c is None:
            # indirect call through a fn pointer / closure local
            f = self.operand(frame, st, t["func"])
            st.events.append(("call", "<indirect>", tuple([f] + args), site, False, None))
            yield st, self.opaque(st, "<indirect>", [f] + args)
            return
        path, resolved, fj = c
        target = resolved or path
        muts = tuple(self.arg_is_mut(fj, t, i) for i in range(len(args)))
        st.events.append(("call", target, tuple(args), site, target in self.fx.fns, fj, muts))
        # 0. iterator pipelines: `it.filter(p).map(f).for_each(g)` is a loop in disguise; its body paths are produced as loop-body
        #    rows exactly like those of `for x in it { if !p(x) { continue } g(f(x)) }`
        if self.fuse_iterators:
            decl = strip_all_generics(path or "")
            if decl.startswith("std::iter::Iterator::"):
                nm = decl.split("::")[-1]
                if nm in ("for_each", "try_for_each") and len(args) == 2 and self._closure_is_local(st, args[1]):
                    yield from self.fused_consumer(nm, frame, st, args, depth, site)
                    return
                elif nm in ("any", "all") and len(args) == 2 and self._closure_is_local(st, args[1]) and self._closure_has_effects(st, args, depth, site):
                    # a predicate with side effects (`.all(|x| { let ok = ser.try_add(x); flag |= ok; ok })`) is a loop with an early
                    # exit, not a pure question: body rows + the exit paths, like try_for_each
                    yield from self.fused_consumer(nm, frame, st, args, depth, site)
                    return
                elif nm in ("any", "all") and len(args) == 2 and self._closure_is_local(st, args[1]):
                    # `it.any(p)`: an opaque boolean that names the predicate applied to one (symbolic) element, so that rules can
                    # recognise "some element satisfies p" whatever the loop style
                    sa = st.fork()
                    self.in_discovery.add(("fused-any", site))
                    try:
                        outs = []
                        for s1, e in self.iter_elements(sa, args[0], depth, site):
                            if e is ITER_END or e is ITER_SKIP:
                                continue
                            for s2, r in call_closure(self, s1, args[1], [e], depth, site):
                                if r is not PANIC:
                                    outs.append(r)
                    finally:
                        self.in_discovery.discard(("fused-any", site))
                    if len(outs) == 1:
                        yield st, ("call", "fused:" + nm, (self.pipeline_of(st, args[0]), outs[0]), None)
                        return
                elif nm == "fold" and len(args) == 3 and self._closure_is_local(st, args[2]):
                    # `it.fold(init, |acc, x| ..)`: one loop-body row per closure path with an unknown accumulator; the result is an
                    # unknown value of the accumulator
                    acc = ("loopvar", (0, "fused-fold:%s:%s" % site, 0), args[1])
                    if not self.in_discovery and hasattr(self, "callee_backedges"):
                        sb = st.fork()
                        sb.events.append(("loop", frame["fn"]["id"], "fused", ()))
                        for s1, e in self.iter_elements(sb, args[0], depth, site):
                            if e is ITER_END:
                                continue
                            if e is ITER_SKIP:
                                self.callee_backedges.append((s1, site))
                                continue
                            for s2, r in call_closure(self, s1, args[2], [acc, e], depth, site):
                                if r is not PANIC:
                                    s2.events.append(("fused-body-result", "fold", r))
                                    self.callee_backedges.append((s2, site))
                    yield st, acc
                    return
                elif nm == "collect" and len(args) == 1 and self.is_pipeline(self.pipeline_of(st, args[0])) and not self.in_discovery \
                        and hasattr(self, "callee_backedges"):
                    # the items a `collect()` receives, one loop-body row per pipeline path (the collection itself stays opaque)
                    sb = st.fork()
                    sb.events.append(("loop", frame["fn"]["id"], "fused", ()))
                    for s1, e in self.iter_elements(sb, args[0], depth, site):
                        if e is ITER_END:
                            continue
                        if e is not ITER_SKIP:
                            s1.events.append(("call", "fused:collect-item", (e,), site, False, None))
                        self.callee_backedges.append((s1, site))
                elif nm == "next" and len(args) == 1 and self.is_pipeline(self.pipeline_of(st, args[0])):
                    yield from self.fused_next(st, args[0], depth, site)
                    return
        # 1. exact summaries for the resolved target
        for name in (target, strip_generics(target)):
            if name in self.summaries:
                yield from self.summaries[name](self, frame, st, args, fj, depth, site)
                return
        # 2. inline local bodies (a local impl beats a generic trait summary)
        if target in self.fx.fns:
            if self.may_inline(target, depth):
                yield from self.inline(st, target, args, depth, site)
                return
        else:
            # 3. generic summaries by declared (trait) path
            for name in (path, strip_generics(path), trait_method(target)):
                if name in self.summaries:
                    yield from self.summaries[name](self, frame, st, args, fj, depth, site)
                    return
        # 4. opaque; &mut arguments pointing into tracked objects are havocked
        pure = target in self.opaque_pure or strip_generics(target) in self.opaque_pure
        if not pure and target not in self.fx.fns and strip_all_generics(target).split("::")[-1] in PURE_OBSERVERS \
                and not any(self.arg_is_mut(fj, t, i) for i in range(len(args))):
            # observers of std collections: the result is a function of the receiver's current value
            vals = [_val(self, st, a) if a[0] == "ptr" else a for a in args]
            yield st, ("call", target, tuple(vals), None)
            return
        rv = self.opaque(st, target, args, pure=pure)
        for i, a in enumerate(args):
            if pure:
                break
            if a[0] == "ptr" and self.arg_is_mut(fj, t, i):
                cur = self.read_rp(st, a[1], a[2])
                self.write_rp(st, a[1], a[2], ("call", "havoc:" + target, (cur,), self.next_uniq(st, "havoc:" + target)), site)
        # closures handed to library code may be invoked any number of times: whatever they
        # capture by unique borrow becomes unknown (the rule analyses the closure body itself)
        for a in args:
            clo = a
            if clo[0] == "ptr":
                clo = self.read_rp(st, clo[1], clo[2])
            if clo[0] == "closure" and len(clo) > 3:
                for n in clo[3]:
                    pv = proj(clo, ("f", "<closure>", n))
                    if pv[0] == "ptr":
                        cur = self.read_rp(st, pv[1], pv[2])
                        self.write_rp(st, pv[1], pv[2], ("call", "fold:" + clo[1], (cur,), n), site)
        yield st, rv

    # ---------------------------------------------------------------- iterator pipelines
    FUSABLE = ("filter", "map", "filter_map", "flat_map", "inspect", "cloned", "copied", "take_while", "skip_while_never")

    def pipeline_of(self, st, t):
        """the iterator expression behind a pointer / loop variable / already-advanced iterator"""
        for _ in range(12):
            if t[0] == "ptr":
                t = self.read_rp(st, t[1], t[2])
            elif t[0] == "loopvar" and len(t) > 2:
                t = t[2]
            elif t[0] == "call" and t[1].startswith("havoc:") and t[1].endswith("::next") and t[2]:
                t = t[2][0]
            elif t[0] == "call" and strip_all_generics(t[1]).split("::")[-1] == "into_iter" and t[2] and self.is_pipeline(self.pipeline_of(st, t[2][0])):
                t = t[2][0]
            else:
                break
        return t

    def is_pipeline(self, t):
        if t[0] != "call" or t[1].startswith("havoc:") or not strip_all_generics(t[1]).startswith("std::iter::Iterator::"):
            return False
        nm = strip_all_generics(t[1]).split("::")[-1]
        if nm not in self.FUSABLE:
            return False
        if nm in ("cloned", "copied"):
            return True
        if len(t[2]) != 2:
            return False
        clo = t[2][1]
        if clo[0] == "closure" and clo[1] in self.fx.fns:
            if nm == "flat_map" and not (self.fx.fns[clo[1]].get("output") or "").startswith("std::option::Option"):
                return False
            return True
        return clo[0] == "fnptr" and clo[1] in self.fx.fns and nm != "flat_map"

    def split_truth(self, st, v):
        if v == TRUE:
            return [(st, True)]
        if v == FALSE:
            return [(st, False)]
        if v[0] == "un" and v[1] == "Not":
            return [(s2, not b) for s2, b in self.split_truth(st, v[2])]
        for c in st.cond:
            if c[0] == "truth" and c[1] == v:
                return [(st, c[2])]
        s1 = st.fork()
        s1.cond.append(("truth", v, True))
        s2 = st.fork()
        s2.cond.append(("truth", v, False))
        return [(s1, True), (s2, False)]

    def iter_elements(self, st, t, depth, site):
        """generator (state, element | ITER_SKIP | ITER_END) for one step of the iterator expression t"""
        t = self.pipeline_of(st, t)
        if not self.is_pipeline(t):
            r = ("call", "std::iter::Iterator::next", (t,), self.next_uniq(st, "fused:next"))
            for s2, tag, payload in split_option(self, st, r):
                yield s2, (payload if tag == "Some" else ITER_END)
            return
        nm = strip_all_generics(t[1]).split("::")[-1]
        inner = t[2][0]
        clo = t[2][1] if len(t[2]) > 1 else None
        if clo is not None and clo[0] in ("closure", "fnptr") and clo[1] in self.fx.fns:
            FUSED_ADAPTORS.add((self.fx.root_fn(clo[1]) if clo[0] == "closure" else (self.top_root or clo[1]), "Iterator::" + nm, clo[1]))
        for s1, e in self.iter_elements(st, inner, depth, site):
            if e is ITER_SKIP or e is ITER_END:
                yield s1, e
                continue
            if nm in ("cloned", "copied"):
                yield s1, (_val(self, s1, e) if e[0] == "ptr" else e)
                continue
            if nm in ("filter", "inspect", "take_while"):
                self.frame_counter += 1
                tmp = ("L", self.frame_counter, -7)
                s1.store[tmp] = e
                for s2, r in call_closure(self, s1, clo, [("ptr", tmp, ())], depth, site):
                    if r is PANIC:
                        continue
                    if nm == "inspect":
                        yield s2, e
                        continue
                    for s3, b in self.split_truth(s2, r):
                        # take_while: the first element that fails ends the iteration (the loop is left)
                        yield s3, (e if b else (ITER_END if nm == "take_while" else ITER_SKIP))
                continue
            for s2, r in call_closure(self, s1, clo, [e], depth, site):
                if r is PANIC:
                    continue
                if nm == "map":
                    yield s2, r
                else:   # filter_map / flat_map over Option
                    for s3, tag, payload in split_option(self, s2, r):
                        yield s3, (payload if tag == "Some" else ITER_SKIP)

    def _closure_is_local(self, st, g):
        gv = self.read_rp(st, g[1], g[2]) if g[0] == "ptr" else g
        return gv[0] in ("closure", "fnptr") and gv[1] in self.fx.fns

    def _havoc_closure_captures(self, st, clo, site):
        if clo[0] == "ptr":
            clo = self.read_rp(st, clo[1], clo[2])
        if clo[0] == "closure" and len(clo) > 3:
            for n in clo[3]:
                pv = proj(clo, ("f", "<closure>", n))
                if pv[0] == "ptr":
                    cur = self.read_rp(st, pv[1], pv[2])
                    self.write_rp(st, pv[1], pv[2], ("call", "fold:" + clo[1], (cur,), n), site)

    def _pipeline_closures(self, st, t):
        out = []
        t = self.pipeline_of(st, t)
        while self.is_pipeline(t):
            if len(t[2]) > 1:
                out.append(t[2][1])
            t = self.pipeline_of(st, t[2][0])
        return out

    def _closure_body_paths(self, sb, nm, args, depth, site):
        """(state, result) of running one element through the pipeline and the consumer closure; skipped elements give
        (state, ITER_SKIP)"""
        g = args[1]
        for s1, e in self.iter_elements(sb, args[0], depth, site):
            if e is ITER_END:
                continue
            if e is ITER_SKIP:
                yield s1, ITER_SKIP
                continue
            for s2, r in call_closure(self, s1, g, [e], depth, site):
                if r is PANIC:
                    continue
                yield s2, r

    def _closure_has_effects(self, st, args, depth, site):
        """does one run of the consumer closure write outside its own frame or hand a `&mut` to a function?"""
        key = ("fused-effects", site)
        if key in self.in_discovery:
            return False
        self.in_discovery.add(key)
        try:
            sa = st.fork()
            n0 = len(sa.events)
            for s2, r in self._closure_body_paths(sa, "all", args, depth, site):
                for e in s2.events[n0:]:
                    if e[0] == "write":
                        return True
                    if e[0] == "call" and len(e) > 6 and any(e[6]) and strip_all_generics(e[1]).split("::")[-1] not in ("next", "deref_mut", "as_mut", "borrow_mut", "iter_mut"):
                        return True
        except Unanalysable:
            return False
        finally:
            self.in_discovery.discard(key)
        return False

    def fused_consumer(self, nm, frame, st, args, depth, site):
        """`pipeline.for_each(g)` / `try_for_each(g)` as the loop it is.  (1) dry run of the body to find what it writes outside
        its own frame; (2) those places become loop variables (unknown value of an arbitrary iteration), the body paths are
        recorded as loop-body rows of the table being built; (3) the caller continues with the same places unknown.  For
        try_for_each a body path whose result is the failure variant leaves the loop with that result."""
        g = args[1]
        out_ty = ""
        gv = self.read_rp(st, g[1], g[2]) if g[0] == "ptr" else g
        if gv[0] in ("closure", "fnptr") and gv[1] in self.fx.fns:
            out_ty = self.fx.fns[gv[1]].get("output") or ""
        # (1) discovery
        key = ("fused", site)
        self.in_discovery.add(key)
        written = []
        try:
            sa = st.fork()
            for c in self._pipeline_closures(sa, args[0]) + [g]:
                self._havoc_closure_captures(sa, c, site)
            n0 = len(sa.events)
            frame0 = self.frame_counter
            for s2, r in self._closure_body_paths(sa, nm, args, depth, site):
                for e in s2.events[n0:]:
                    if e[0] == "write" and (e[1], tuple(e[2])) not in written:
                        written.append((e[1], tuple(e[2])))
                    # a local of an enclosing frame updated through a captured `&mut` (a flag, a counter)
                    if e[0] == "lwrite" and e[1][0] == "L" and e[1][1] <= frame0 and (e[1], tuple(e[2])) not in written:
                        written.append((e[1], tuple(e[2])))
        finally:
            self.in_discovery.discard(key)

        def havoc(state):
            for i, (root, path) in enumerate(written):
                cur = self.read_rp(state, root, path)
                nm_ = (fmt_root(root) + "".join(fmt_elem(x) for x in path)) if root[0] == "L" else i
                self.write_rp(state, root, path, ("loopvar", (0, "fused:%s:%s" % site, nm_), cur), site, log=False)
        # (2) body rows
        if not self.in_discovery and hasattr(self, "callee_backedges"):
            sb = st.fork()
            sb.events.append(("loop", frame["fn"]["id"], "fused", tuple(written)))
            havoc(sb)
            for s2, r in self._closure_body_paths(sb, nm, args, depth, site):
                if nm == "try_for_each" and r is not ITER_SKIP:
                    fails = []
                    for s3, tag in self._split_try(s2, r, out_ty):
                        if tag == "fail":
                            fails.append(s3)
                        else:
                            self.callee_backedges.append((s3, site))
                    for s3 in fails:
                        yield s3, r
                    continue
                if nm in ("all", "any") and r is not ITER_SKIP:
                    for s3, b in self.split_truth(s2, r):
                        if b == (nm == "any"):
                            yield s3, C(nm == "any")        # the predicate decided: the iteration stops here
                        else:
                            self.callee_backedges.append((s3, site))
                    continue
                self.callee_backedges.append((s2, site))
        # (3) continuation: the iteration is over — the source is exhausted or a take_while predicate failed (that path keeps
        #     its conditions: "an element was available, the loop was left")
        havoc(st)
        if nm == "try_for_each" and out_ty.startswith("std::result::Result"):
            done = ("agg", "std::result::Result", "Ok", (("0", ("agg", "<tuple>", None, ())),))
        elif nm == "try_for_each" and out_ty.startswith("std::option::Option"):
            done = some(("agg", "<tuple>", None, ()))
        elif nm == "try_for_each":
            done = self.opaque(st, "std::iter::Iterator::try_for_each", list(args))
        elif nm in ("all", "any"):
            done = C(nm == "all")
        else:
            done = ("c", None)
        ends = 0
        self.in_discovery.add(("fused-end", site))
        try:
            outs = [(s1, e) for s1, e in self.iter_elements(st.fork(), args[0], depth, site)]
        finally:
            self.in_discovery.discard(("fused-end", site))
        for s1, e in outs:
            if e is ITER_END:
                ends += 1
                yield s1, done
        if not ends:
            yield st, done

    def _split_try(self, st, r, out_ty):
        """(state, 'fail' | 'continue') for the result of a try_for_each closure"""
        fail_v = "Err" if out_ty.startswith("std::result::Result") else "None" if out_ty.startswith("std::option::Option") else "Break"
        ok_v = {"Err": "Ok", "None": "Some", "Break": "Continue"}[fail_v]
        if r[0] == "agg" and r[2] in (fail_v, ok_v):
            return [(st, "fail" if r[2] == fail_v else "continue")]
        for c in st.cond:
            if c[0] == "variant" and c[1] == r and c[3]:
                return [(st, "fail" if c[2] == fail_v else "continue")]
        s1 = st.fork()
        s1.cond.append(("variant", r, fail_v, True))
        s2 = st.fork()
        s2.cond.append(("variant", r, ok_v, True))
        return [(s1, "fail"), (s2, "continue")]

    def fused_next(self, st, itptr, depth, site):
        """`next()` on a fusable pipeline inside a `for` loop: Some(element) for the elements that pass, None when exhausted; an
        element that a filter drops is a loop-body path of its own (it goes straight to the next iteration)"""
        for s1, e in self.iter_elements(st, itptr, depth, site):
            if e is ITER_END:
                yield s1, NONE
            elif e is ITER_SKIP:
                if hasattr(self, "callee_backedges"):
                    self.callee_backedges.append((s1, site))
            else:
                yield s1, some(e)

    def arg_is_mut(self, fj, t, i):
        # declared argument types are not in the call json; use the operand's place type
        a = t["args"][i]
        if a["k"] in ("copy", "move"):
            return a["place"]["ty"].startswith("&mut")
        return False

    def next_uniq(self, st, target=None):
        # occurrence index of this callee on the current path: stable across rows and runs
        n = 0
        for e in st.events:
            if e[0] == "uniq" and e[1] == target:
                n += 1
        st.events.append(("uniq", target))
        return n

    def opaque(self, st, target, args, pure=False):
        return ("call", target, tuple(args), None if pure else self.next_uniq(st, target))

    def may_inline(self, target, depth):
        if depth >= self.max_depth:
            return False
        if target in self.no_inline:
            return False
        if self.inline_only is not None and target not in self.inline_only:
            fn = self.fx.fns[target]
            if fn["kind"] != "closure":
                return False
            if self.own_closures_only and self.top_root is not None and self.fx.root_fn(target) != self.top_root \
                    and self.fx.root_fn(target) not in getattr(self.fx, "new_helpers", ()):
                # (the coroutine of an async helper that a refactoring introduced is part of its caller's body)
                return False
        return True

    def inline(self, st, target, args, depth, site):
        fn = self.fx.fns[target]
        frame = self.new_frame(fn)
        argc = fn["arg_count"]
        vals = list(args)
        # closures called through Fn*/call*: (env, (a, b, ..)) -> spread
        if fn["kind"] == "closure" and len(vals) == 2 and argc != 2 or (
                fn["kind"] == "closure" and len(vals) == 2 and vals[1][0] == "agg" and vals[1][1] == "<tuple>"
                and argc == 1 + len(vals[1][3])):
            tup = vals[1]
            spread = [proj(tup, ("f", "<tuple>", str(i))) for i in range(argc - 1)]
            vals = [vals[0]] + spread
        for i in range(1, argc + 1):
            v = vals[i - 1] if i - 1 < len(vals) else ("undef", "arg")
            root = ("L", frame["id"], i)
            lty = fn["locals"][i]["ty"]
            if i == 1 and fn["kind"] == "closure":
                if lty.startswith("&") and v[0] != "ptr":
                    tmp = ("L", frame["id"], -1)
                    st.store[tmp] = v
                    v = ("ptr", tmp, ())
                elif not lty.startswith("&") and v[0] == "ptr":
                    v = self.read_rp(st, v[1], v[2])
            st.store[root] = v
        for s2, kind, ret, rsite in self.run(frame, 0, st, depth + 1):
            if kind == "return":
                if fn.get("coroutine"):
                    # the body of an (async) coroutine polled by its awaiter: completing is `Poll::Ready(value)`
                    ret = ("agg", "std::task::Poll", "Ready", (("0", ret),))
                yield s2, ret
            elif kind == "panic":
                s2.events.append(("panic-in-callee", target, rsite))
                yield s2, PANIC
            elif kind == "backedge":
                # a callee path that ends at its own loop back edge carries no return; it is a loop-body row of the table
                if hasattr(self, "callee_backedges") and not self.in_discovery:
                    self.callee_backedges.append((s2, rsite))
                continue
            else:
                continue


PANIC = ("panic",)
ITER_SKIP = ("iter-skip",)
ITER_END = ("iter-end",)
PURE_OBSERVERS = {"len", "is_empty", "contains", "contains_key"}


def strip_generics(p):
    out = []
    depth = 0
    i = 0
    while i < len(p):
        ch = p[i]
        if ch == "<" and i > 0 and p[i - 2:i] == "::":
            depth += 1
            # drop the preceding '::'
            out = out[:-2]
        elif ch == ">" and depth > 0:
            depth -= 1
        elif depth == 0:
            out.append(ch)
        i += 1
    return "".join(out)


def trait_method(p):
    """'<X as some::Trait<..>>::m' -> 'some::Trait::m'"""
    if p.startswith("<") and " as " in p:
        depth = 0
        for i, ch in enumerate(p):
            if ch == "<":
                depth += 1
            elif ch == ">":
                depth -= 1
                if depth == 0:
                    inner = p[1:i]
                    rest = p[i + 1:]
                    # split at the top-level ' as '
                    d2 = 0
                    for j in range(len(inner)):
                        if inner[j] == "<":
                            d2 += 1
                        elif inner[j] == ">":
                            d2 -= 1
                        elif d2 == 0 and inner.startswith(" as ", j):
                            tr = inner[j + 4:]
                            return strip_all_generics(tr) + rest
                    return p
    return p


def strip_all_generics(p):
    out = []
    depth = 0
    for ch in p:
        if ch == "<":
            depth += 1
        elif ch == ">":
            depth -= 1
        elif depth == 0:
            out.append(ch)
    r = "".join(out)
    while "::::" in r:
        r = r.replace("::::", "::")
    return r.lstrip(":")


def arg_names(fn):
    names = {}
    for d in fn.get("debug", []):
        if "arg" in d and "place" in d and not d["place"]["proj"]:
            names[d["place"]["local"]] = d["name"]
    return names


def local_names(fn):
    names = {}
    for d in fn.get("debug", []):
        if "place" in d and not d["place"]["proj"]:
            names.setdefault(d["place"]["local"], d["name"])
    return names


# ------------------------------------------------------------------ summaries
def _val(eng, st, a):
    """value behind a reference argument (auto-deref through nested refs)"""
    guard = 0
    while a[0] == "ptr" and guard < 4:
        a = eng.read_rp(st, a[1], a[2])
        guard += 1
    return a


def unwrap_newtype(eng, t, tyname):
    """single-field local structs are transparent for comparisons"""
    guard = 0
    while guard < 3:
        guard += 1
        tyname = tyname.lstrip("&").replace("mut ", "").strip()
        adt = eng.fx.adts.get(tyname)
        if not adt or adt["kind"] != "Struct" or len(adt["variants"][0]["fields"]) != 1:
            break
        f = adt["variants"][0]["fields"][0]
        t = proj(t, ("f", tyname, str(f["name"])))
        tyname = f["ty"]
    return t


def s_cmp(op):
    def f(eng, frame, st, args, fj, depth, site):
        a = _val(eng, st, args[0])
        b = _val(eng, st, args[1])
        tys = (fj or {}).get("args") or []
        if tys:
            a = unwrap_newtype(eng, a, tys[0])
            b = unwrap_newtype(eng, b, tys[1] if len(tys) > 1 else tys[0])
        yield st, binop(op, a, b)
    return f


def s_maxmin(op):
    def f(eng, frame, st, args, fj, depth, site):
        yield st, binop(op, _val(eng, st, args[0]), _val(eng, st, args[1]))
    return f


def s_identity(eng, frame, st, args, fj, depth, site):
    yield st, args[0]


def s_clone(eng, frame, st, args, fj, depth, site):
    yield st, _val(eng, st, args[0])


def s_deref(eng, frame, st, args, fj, depth, site):
    # Deref::deref(&T) -> &U : keep pointing at the same object (String -> str etc.)
    yield st, args[0]


OPTION = "std::option::Option"


def is_some(v):
    return v[0] == "agg" and v[2] == "Some"


def is_none(v):
    return v[0] == "agg" and v[2] == "None"


def some(v):
    return ("agg", OPTION, "Some", (("0", v),))


NONE = ("agg", OPTION, "None", ())

OPT_VARIANTS = (("None", 0), ("Some", 1))


def split_option(eng, st, v):
    """-> list of (state, 'Some'|'None', payload)"""
    if is_some(v):
        return [(st, "Some", proj(v, ("f", OPTION, "0")))]
    if is_none(v):
        return [(st, "None", None)]
    if v[0] == "ite":
        outs = []
        for pol, branch in ((True, v[2]), (False, v[3])):
            s2 = st.fork()
            s2.cond.append(("truth", v[1], pol))
            outs.extend(split_option(eng, s2, branch))
        return outs
    for c in st.cond:
        if c[0] == "variant" and c[1] == v and c[3]:
            if c[2] == "Some":
                return [(st, "Some", proj(proj(v, ("v", "Some")), ("f", OPTION, "0")))]
            return [(st, "None", None)]
    s1 = st.fork()
    s1.cond.append(("variant", v, "Some", True))
    s2 = st.fork()
    s2.cond.append(("variant", v, "None", True))
    return [(s1, "Some", proj(proj(v, ("v", "Some")), ("f", OPTION, "0"))), (s2, "None", None)]


def call_closure(eng, st, clo, cargs, depth, site):
    """generator (state, ret) of applying closure value `clo` to args"""
    if clo[0] == "ptr":
        clo = eng.read_rp(st, clo[1], clo[2])
    if clo[0] == "closure" and clo[1] in eng.fx.fns:
        tup = ("agg", "<tuple>", None, tuple((str(i), a) for i, a in enumerate(cargs)))
        st.events.append(("call", clo[1], (clo, tup), site, True, None))
        yield from eng.inline(st, clo[1], [clo, tup], depth, site)
    elif clo[0] == "fnptr" and clo[1] in eng.fx.fns:
        st.events.append(("call", clo[1], tuple(cargs), site, True, None))
        yield from eng.inline(st, clo[1], list(cargs), depth, site)
    else:
        yield st, eng.opaque(st, "<closure-call>", [clo] + list(cargs))


def s_option_map(eng, frame, st, args, fj, depth, site):
    for s2, tag, payload in split_option(eng, st, args[0]):
        if tag == "None":
            yield s2, NONE
        else:
            for s3, r in call_closure(eng, s2, args[1], [payload], depth, site):
                yield s3, (some(r) if r is not PANIC else PANIC)


def s_option_unwrap_or(eng, frame, st, args, fj, depth, site):
    for s2, tag, payload in split_option(eng, st, args[0]):
        yield s2, (payload if tag == "Some" else args[1])


def s_option_is_some(eng, frame, st, args, fj, depth, site):
    v = _val(eng, st, args[0])
    for s2, tag, payload in split_option(eng, st, v):
        yield s2, C(tag == "Some")


def s_option_is_none(eng, frame, st, args, fj, depth, site):
    v = _val(eng, st, args[0])
    for s2, tag, payload in split_option(eng, st, v):
        yield s2, C(tag == "None")


def s_option_copied(eng, frame, st, args, fj, depth, site):
    for s2, tag, payload in split_option(eng, st, args[0]):
        yield s2, (some(_val(eng, s2, payload)) if tag == "Some" else NONE)


def s_option_and_then(eng, frame, st, args, fj, depth, site):
    for s2, tag, payload in split_option(eng, st, args[0]):
        if tag == "None":
            yield s2, NONE
        else:
            yield from call_closure(eng, s2, args[1], [payload], depth, site)


RESULT = "std::result::Result"


def split_result(eng, st, v):
    """-> list of (state, 'Ok'|'Err', payload)"""
    if v[0] == "ptr":
        v = eng.read_rp(st, v[1], v[2])
    if v[0] == "agg" and v[2] in ("Ok", "Err"):
        return [(st, v[2], proj(v, ("f", RESULT, "0")))]
    for c in st.cond:
        if c[0] == "variant" and c[1] == v and c[3] and c[2] in ("Ok", "Err"):
            return [(st, c[2], proj(proj(v, ("v", c[2])), ("f", RESULT, "0")))]
    out = []
    for tag in ("Ok", "Err"):
        s1 = st.fork()
        s1.cond.append(("variant", v, tag, True))
        out.append((s1, tag, proj(proj(v, ("v", tag)), ("f", RESULT, "0"))))
    return out


def s_result_ok(eng, frame, st, args, fj, depth, site):
    for s2, tag, payload in split_result(eng, st, args[0]):
        yield s2, (some(payload) if tag == "Ok" else NONE)


def s_result_err(eng, frame, st, args, fj, depth, site):
    for s2, tag, payload in split_result(eng, st, args[0]):
        yield s2, (some(payload) if tag == "Err" else NONE)


def s_result_is(which):
    def f(eng, frame, st, args, fj, depth, site):
        for s2, tag, payload in split_result(eng, st, args[0]):
            yield s2, C(tag == which)
    return f


def s_result_inspect(which):
    def f(eng, frame, st, args, fj, depth, site):
        v = args[0] if args[0][0] != "ptr" else eng.read_rp(st, args[0][1], args[0][2])
        for s2, tag, payload in split_result(eng, st, v):
            if tag != which:
                yield s2, v
                continue
            eng.frame_counter += 1
            tmp = ("L", eng.frame_counter, -7)
            s2.store[tmp] = payload
            for s3, r in call_closure(eng, s2, args[1], [("ptr", tmp, ())], depth, site):
                if r is not PANIC:
                    yield s3, ("agg", RESULT, tag, (("0", payload),))
    return f


INT_TYPES = ("u8", "u16", "u32", "u64", "u128", "usize", "i8", "i16", "i32", "i64", "i128", "isize")
ORDERING = "std::cmp::Ordering"


def s_ord_cmp(eng, frame, st, args, fj, depth, site):
    """Ord::cmp on primitive integers: Less / Equal / Greater with the comparison as path condition"""
    tys = [t.lstrip("&") for t in ((fj or {}).get("args") or [])]
    if not tys or tys[0] not in INT_TYPES:
        yield st, eng.opaque(st, "std::cmp::Ord::cmp", list(args))
        return
    a, b = _val(eng, st, args[0]), _val(eng, st, args[1])
    for s1, lt in eng.split_truth(st, binop("Lt", a, b)):
        if lt:
            yield s1, ("agg", ORDERING, "Less", ())
            continue
        for s2, eq in eng.split_truth(s1, binop("Eq", a, b)):
            yield s2, ("agg", ORDERING, "Equal" if eq else "Greater", ())


def s_option_is_some_and(eng, frame, st, args, fj, depth, site):
    for s2, tag, payload in split_option(eng, st, args[0]):
        if tag == "None":
            yield s2, FALSE
        else:
            yield from call_closure(eng, s2, args[1], [payload], depth, site)


def s_option_is_none_or(eng, frame, st, args, fj, depth, site):
    for s2, tag, payload in split_option(eng, st, args[0]):
        if tag == "None":
            yield s2, TRUE
        else:
            yield from call_closure(eng, s2, args[1], [payload], depth, site)


def s_option_map_or(eng, frame, st, args, fj, depth, site):
    for s2, tag, payload in split_option(eng, st, args[0]):
        if tag == "None":
            yield s2, args[1]
        else:
            yield from call_closure(eng, s2, args[2], [payload], depth, site)


def s_option_map_or_else(eng, frame, st, args, fj, depth, site):
    for s2, tag, payload in split_option(eng, st, args[0]):
        if tag == "None":
            yield from call_closure(eng, s2, args[1], [], depth, site)
        else:
            yield from call_closure(eng, s2, args[2], [payload], depth, site)


def s_option_unwrap_or_else(eng, frame, st, args, fj, depth, site):
    for s2, tag, payload in split_option(eng, st, args[0]):
        if tag == "Some":
            yield s2, payload
        else:
            yield from call_closure(eng, s2, args[1], [], depth, site)


def s_option_filter(eng, frame, st, args, fj, depth, site):
    for s2, tag, payload in split_option(eng, st, args[0]):
        if tag == "None":
            yield s2, NONE
            continue
        eng.frame_counter += 1
        tmp = ("L", eng.frame_counter, -7)
        s2.store[tmp] = payload
        for s3, r in call_closure(eng, s2, args[1], [("ptr", tmp, ())], depth, site):
            if r is PANIC:
                continue
            for s4, b in eng.split_truth(s3, r):
                yield s4, (some(payload) if b else NONE)


def s_option_flatten(eng, frame, st, args, fj, depth, site):
    # Option<Option<T>>::flatten: Some(inner) -> inner, None -> None
    for s2, tag, payload in split_option(eng, st, args[0]):
        yield s2, (NONE if tag == "None" else _val(eng, s2, payload))


def s_bool_then_some(eng, frame, st, args, fj, depth, site):
    # bool::then_some(c, v): the value is evaluated by the caller either way
    for s2, b in eng.split_truth(st, _val(eng, st, args[0])):
        yield s2, (some(args[1]) if b else NONE)


def s_bool_then(eng, frame, st, args, fj, depth, site):
    # bool::then(c, f): f runs only when c holds
    for s2, b in eng.split_truth(st, _val(eng, st, args[0])):
        if not b:
            yield s2, NONE
        else:
            for s3, r in call_closure(eng, s2, args[1], [], depth, site):
                yield s3, some(r)


def s_vacant_insert(eng, frame, st, args, fj, depth, site):
    """VacantEntry::insert(entry, v) -> &mut V: a reference to a slot that holds exactly v (what is read back through it is v)"""
    eng.frame_counter += 1
    tmp = ("L", eng.frame_counter, -9)
    st.store[tmp] = args[1]
    yield st, ("ptr", tmp, ())


def s_entry_or_insert_with(eng, frame, st, args, fj, depth, site):
    """Entry::or_insert_with(entry, f): an occupied entry yields the stored value and f does not run; a vacant one runs f once
    and stores its result.  NOT a default summary: rules that want the closure followed pass it to their engine."""
    e = args[0]
    s1 = st.fork()
    s1.cond.append(("variant", e, "Occupied", True))
    yield s1, eng.opaque(s1, "Entry::Occupied::into_mut", [e])
    s2 = st.fork()
    s2.cond.append(("variant", e, "Vacant", True))
    for s3, r in call_closure(eng, s2, args[1], [], depth, site):
        s3.events.append(("call", "Entry::Vacant::insert", (e, r), site, False, None))
        yield s3, eng.opaque(s3, "Entry::Vacant::insert", [e, r])


SLOT_SUMMARIES = {
    "std::collections::btree_map::VacantEntry::insert": s_vacant_insert,
    "std::collections::hash_map::VacantEntry::insert": s_vacant_insert,
}

ENTRY_SUMMARIES = {
    "std::collections::btree_map::Entry::or_insert_with": s_entry_or_insert_with,
    "std::collections::hash_map::Entry::or_insert_with": s_entry_or_insert_with,
}


def s_option_context(eng, frame, st, args, fj, depth, site):
    # anyhow::Context for Option<T>: None -> Err(msg), Some(x) -> Ok(x)
    RES = "std::result::Result"
    for s2, tag, payload in split_option(eng, st, args[0]):
        if tag == "Some":
            yield s2, ("agg", RES, "Ok", (("0", payload),))
        else:
            yield s2, ("agg", RES, "Err", (("0", ("call", "anyhow::Error::msg", (), None)),))


def s_result_context(eng, frame, st, args, fj, depth, site):
    # anyhow::Context for Result<T, E>: Ok(x) -> Ok(x), Err(e) -> Err(e.context(msg))
    RES = "std::result::Result"
    v = args[0]
    if v[0] == "ptr":
        v = eng.read_rp(st, v[1], v[2])
    if v[0] == "agg" and v[2] == "Ok":
        yield st, v
        return
    if v[0] == "agg" and v[2] == "Err":
        yield st, ("agg", RES, "Err", (("0", ("call", "anyhow::Error::context", (proj(v, ("f", RES, "0")),), None)),))
        return
    for c in st.cond:
        if c[0] == "variant" and c[1] == v and c[3] and c[2] in ("Ok", "Err"):
            if c[2] == "Ok":
                yield st, ("agg", RES, "Ok", (("0", proj(proj(v, ("v", "Ok")), ("f", RES, "0"))),))
            else:
                yield st, ("agg", RES, "Err", (("0", ("call", "anyhow::Error::context", (proj(proj(v, ("v", "Err")), ("f", RES, "0")),), None)),))
            return
    s1 = st.fork()
    s1.cond.append(("variant", v, "Ok", True))
    yield s1, ("agg", RES, "Ok", (("0", proj(proj(v, ("v", "Ok")), ("f", RES, "0"))),))
    s2 = st.fork()
    s2.cond.append(("variant", v, "Err", True))
    yield s2, ("agg", RES, "Err", (("0", ("call", "anyhow::Error::context", (proj(proj(v, ("v", "Err")), ("f", RES, "0")),), None)),))


def s_option_unwrap(eng, frame, st, args, fj, depth, site):
    for s2, tag, payload in split_option(eng, st, args[0]):
        if tag == "Some":
            yield s2, payload
        else:
            yield s2, PANIC


def s_try_branch_option(eng, frame, st, args, fj, depth, site):
    # <Option<T> as Try>::branch -> ControlFlow<Option<!>, T>
    CF = "std::ops::ControlFlow"
    for s2, tag, payload in split_option(eng, st, args[0]):
        if tag == "Some":
            yield s2, ("agg", CF, "Continue", (("0", payload),))
        else:
            yield s2, ("agg", CF, "Break", (("0", NONE),))


def s_from_residual(eng, frame, st, args, fj, depth, site):
    tys = (fj or {}).get("args") or []
    if tys and tys[0].startswith("std::option::Option"):
        yield st, NONE
    else:
        RES = "std::result::Result"
        e = proj(proj(args[0], ("v", "Err")), ("f", RES, "0"))
        yield st, ("agg", RES, "Err", (("0", ("call", "From::from", (e,), None)),))


def s_try_branch(eng, frame, st, args, fj, depth, site):
    tys = (fj or {}).get("args") or []
    CF = "std::ops::ControlFlow"
    if tys and tys[0].startswith("std::option::Option"):
        yield from s_try_branch_option(eng, frame, st, args, fj, depth, site)
        return
    RES = "std::result::Result"
    v = args[0]
    if v[0] == "agg" and v[2] in ("Ok", "Err"):
        if v[2] == "Ok":
            yield st, ("agg", CF, "Continue", (("0", proj(v, ("f", RES, "0"))),))
        else:
            yield st, ("agg", CF, "Break", (("0", v),))
        return
    s1 = st.fork()
    s1.cond.append(("variant", v, "Ok", True))
    yield s1, ("agg", CF, "Continue", (("0", proj(proj(v, ("v", "Ok")), ("f", RES, "0"))),))
    s2 = st.fork()
    s2.cond.append(("variant", v, "Err", True))
    yield s2, ("agg", CF, "Break", (("0", v),))


def s_duration_since(eng, frame, st, args, fj, depth, site):
    yield st, binop("Sub", _val(eng, st, args[0]), _val(eng, st, args[1]))


def s_add(eng, frame, st, args, fj, depth, site):
    yield st, binop("Add", _val(eng, st, args[0]), _val(eng, st, args[1]))


def s_sub(eng, frame, st, args, fj, depth, site):
    yield st, binop("Sub", _val(eng, st, args[0]), _val(eng, st, args[1]))


def s_div_f32(eng, frame, st, args, fj, depth, site):
    yield st, binop("Div", _val(eng, st, args[0]), _val(eng, st, args[1]))


def s_into(eng, frame, st, args, fj, depth, site):
    tys = (fj or {}).get("args") or []
    if len(tys) >= 2:
        for cand in ("<%s as std::convert::From<%s>>::from" % (tys[1], tys[0]),
                     "<%s as std::convert::From<%s>>::from" % (tys[0], tys[1])):
            if cand in eng.fx.fns:
                st.events.append(("call", cand, tuple(args), site, True, None))
                yield from eng.inline(st, cand, args, depth, site)
                return
    yield st, args[0]


def s_nonzero_get(eng, frame, st, args, fj, depth, site):
    yield st, ("un", "nz_get", args[0])


def s_as_secs_f64(eng, frame, st, args, fj, depth, site):
    yield st, _val(eng, st, args[0])


def s_discriminant_value(eng, frame, st, args, fj, depth, site):
    v = _val(eng, st, args[0])
    tys = (fj or {}).get("args") or []
    variants = ()
    if tys:
        adt = eng.fx.adts.get(tys[0].lstrip("&"))
        if adt:
            variants = tuple((x["name"], x["discr"]) for x in adt["variants"])
    yield st, eng.discr_of(v, variants)


def s_nonzero_new(eng, frame, st, args, fj, depth, site):
    v = args[0]
    if v[0] == "c":
        yield st, (some(v) if v[1] != 0 else NONE)
        return
    z = binop("Eq", v, C(0))
    for c in st.cond:
        if c[0] == "truth" and c[1] == z:
            yield st, (NONE if c[2] else some(v))
            return
    s1 = st.fork()
    s1.cond.append(("truth", z, True))
    yield s1, NONE
    s2 = st.fork()
    s2.cond.append(("truth", z, False))
    yield s2, some(v)


def s_nonzero_get2(eng, frame, st, args, fj, depth, site):
    yield st, args[0]


def s_bool_not(eng, frame, st, args, fj, depth, site):
    yield st, neg(_val(eng, st, args[0]))


DEFAULT_SUMMARIES = {
    "anyhow::__private::not": s_bool_not,
    "std::ops::Not::not": s_bool_not,
    "std::num::NonZero::new": s_nonzero_new,
    "std::num::NonZero::get": s_nonzero_get2,
    "std::intrinsics::discriminant_value": s_discriminant_value,
    "core::intrinsics::discriminant_value": s_discriminant_value,
    "std::cmp::PartialOrd::lt": s_cmp("Lt"),
    "std::cmp::PartialOrd::le": s_cmp("Le"),
    "std::cmp::PartialOrd::gt": s_cmp("Gt"),
    "std::cmp::PartialOrd::ge": s_cmp("Ge"),
    "std::cmp::PartialEq::eq": s_cmp("Eq"),
    "std::cmp::PartialEq::ne": s_cmp("Ne"),
    "std::cmp::Ord::max": s_maxmin("max"),
    "std::cmp::Ord::min": s_maxmin("min"),
    "std::cmp::max": s_maxmin("max"),
    "std::cmp::min": s_maxmin("min"),
    "std::clone::Clone::clone": s_clone,
    "std::ops::Deref::deref": s_deref,
    "std::ops::DerefMut::deref_mut": s_deref,
    "std::option::Option::map": s_option_map,
    "std::option::Option::unwrap_or": s_option_unwrap_or,
    "std::option::Option::is_some": s_option_is_some,
    "std::option::Option::is_none": s_option_is_none,
    "std::option::Option::copied": s_option_copied,
    "std::option::Option::cloned": s_option_copied,
    "std::option::Option::unwrap": s_option_unwrap,
    "std::option::Option::and_then": s_option_and_then,
    "std::option::Option::filter": s_option_filter,
    "std::option::Option::is_some_and": s_option_is_some_and,
    "std::option::Option::is_none_or": s_option_is_none_or,
    "std::option::Option::map_or": s_option_map_or,
    "std::option::Option::map_or_else": s_option_map_or_else,
    "std::option::Option::unwrap_or_else": s_option_unwrap_or_else,
    "std::cmp::Ord::cmp": s_ord_cmp,
    "std::result::Result::ok": s_result_ok,
    "std::result::Result::err": s_result_err,
    "std::result::Result::is_ok": s_result_is("Ok"),
    "std::result::Result::is_err": s_result_is("Err"),
    "std::result::Result::inspect_err": s_result_inspect("Err"),
    "std::result::Result::inspect": s_result_inspect("Ok"),
    "std::option::Option::<std::option::Option<T>>::flatten": s_option_flatten,
    "std::option::Option::flatten": s_option_flatten,
    "core::bool::<impl bool>::then_some": s_bool_then_some,
    "core::bool::<impl bool>::then": s_bool_then,
    "std::bool::<impl bool>::then_some": s_bool_then_some,
    "std::bool::<impl bool>::then": s_bool_then,
    "anyhow::context::<impl anyhow::Context<T, E> for std::result::Result<T, E>>::context": s_result_context,
    "anyhow::context::<impl anyhow::Context<T, E> for std::result::Result<T, E>>::with_context": s_result_context,
    "anyhow::context::<impl anyhow::Context<T, std::convert::Infallible> for std::option::Option<T>>::context": s_option_context,
    "anyhow::context::<impl anyhow::Context<T, std::convert::Infallible> for std::option::Option<T>>::with_context": s_option_context,
    "std::time::Duration::div_f32": s_div_f32,
    "std::time::Duration::div_f64": s_div_f32,
    "std::ops::Try::branch": s_try_branch,
    "std::ops::FromResidual::from_residual": s_from_residual,
    "std::ops::Add::add": s_add,
    "std::ops::Sub::sub": s_sub,
    "std::convert::Into::into": s_into,
    "std::convert::From::from": s_into,
}

# exact (resolved) names take precedence over the generic trait names above; filled lazily
RESOLVED_SUMMARIES = {}
