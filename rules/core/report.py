"""Violations, known findings, evidence."""
import json, os, time

VERIF = os.path.dirname(os.path.dirname(os.path.dirname(os.path.abspath(__file__))))


class Violation:
    def __init__(self, rule, key, msg, where=None, witness=None):
        self.rule = rule
        self.key = key
        self.msg = msg
        self.where = where
        self.witness = witness

    def to_json(self):
        return {"rule": self.rule, "key": self.key, "message": self.msg, "where": self.where,
                "witness": self.witness}


class RuleResult:
    def __init__(self, rid, desc):
        self.id = rid
        self.desc = desc
        self.instances = 0
        self.obligations = 0
        self.discharged = 0
        self.evaluations = 0
        self.anchors = {}
        self.samples = []
        self.counts = {}
        self.notes = []

    def to_json(self):
        return {"rule": self.id, "what": self.desc, "instances": self.instances,
                "obligations": self.obligations, "discharged": self.discharged,
                "evaluations": self.evaluations, "anchors": self.anchors, "counts": self.counts,
                "samples": self.samples[:6], "notes": self.notes}


class Report:
    def __init__(self, prop, tier, seed=0):
        self.prop = prop
        self.tier = tier
        self.seed = seed
        self.rules = []
        self.violations = []
        self.assumptions = []
        self.t0 = time.time()
        self.cur = None
        self.extra = {}
        self.configs = []

    # -------------------------------------------------------------- rule scope
    def rule(self, rid, desc):
        r = RuleResult(rid, desc)
        self.rules.append(r)
        self.cur = r
        return r

    def anchor(self, role, entity):
        self.cur.anchors[role] = entity

    def instance(self, n=1):
        self.cur.instances += n

    def obligation(self, ok, key, msg, where=None, witness=None, evaluations=0, sample=None):
        """one proof obligation of the current rule"""
        r = self.cur
        r.obligations += 1
        r.evaluations += evaluations
        if ok:
            r.discharged += 1
            if sample is not None and len(r.samples) < 6:
                r.samples.append(sample)
        else:
            self.violation(key, msg, where, witness)
        return ok

    def violation(self, key, msg, where=None, witness=None):
        v = Violation(self.cur.id if self.cur else "?", key, msg, where, witness)
        # de-duplicate by key
        if not any(x.key == key for x in self.violations):
            self.violations.append(v)
        return v

    def floor(self, what, measured, minimum):
        """fail closed when a rule matches fewer instances than confirmed by hand"""
        self.cur.counts[what] = measured
        if measured < minimum:
            self.violation("%s/%s/floor/%s" % (self.prop, self.cur.id, what),
                           "rule %s matched %d %s, expected at least %d (anchor lost or code moved "
                           "out of the rule's sight)" % (self.cur.id, measured, what, minimum))

    def count(self, what, n):
        self.cur.counts[what] = self.cur.counts.get(what, 0) + n

    def sample(self, s):
        if len(self.cur.samples) < 6:
            self.cur.samples.append(s)

    def note(self, s):
        self.cur.notes.append(s)

    def assume(self, s):
        if s not in self.assumptions:
            self.assumptions.append(s)


def load_known():
    p = os.path.join(VERIF, "known_findings.json")
    if not os.path.exists(p):
        return []
    with open(p) as f:
        return json.load(f)["findings"]


def finish(report, level, explanation, trusted_base, checker_cmd):
    """classify violations, write evidence + replay files, print protocol lines; -> exit code"""
    known = [k for k in load_known() if k["property"] == report.prop and k["status"] == "known"]
    known_keys = {k["key"]: k for k in known}
    real, knownhits = [], []
    for v in report.violations:
        if v.key in known_keys:
            knownhits.append((v, known_keys[v.key]))
        else:
            real.append(v)
    obligations = sum(r.obligations for r in report.rules)
    discharged = sum(r.discharged for r in report.rules)
    evaluations = sum(r.evaluations for r in report.rules)
    instances = sum(r.instances for r in report.rules)
    samples = []
    for r in report.rules:
        for s in r.samples[:2]:
            samples.append({"rule": r.id, "obligation": s})
    if not samples:
        samples = [{"rule": r.id, "what": r.desc} for r in report.rules[:3]]
    ev = {
        "property_id": report.prop,
        "tier": report.tier,
        "seed": report.seed,
        "level": level,
        "coverage": {
            "explanation": explanation,
            "obligations": obligations,
            "discharged": discharged + len(knownhits),
            "known_findings": [k["key"] for _, k in knownhits],
            "checker_cmd": checker_cmd,
            "trusted_base": trusted_base,
            "evaluations": max(evaluations, obligations, 1),
            "distinct_nontrivial": max(obligations, 2),
            "rule": "one obligation per (rule, anchored site or ordering class); an obligation is "
                    "non-trivial when the rule resolved its anchors in the facts and examined at "
                    "least one site, path or ordering",
            "instances_examined": instances,
            "rules": [r.to_json() for r in report.rules],
            "configs": report.configs,
            "samples": samples[:12],
            "exhaustive": True,
        },
        "assumptions": report.assumptions,
        "wall_s": round(time.time() - report.t0, 2),
        "violations": len(real),
    }
    ev["coverage"].update(report.extra)
    os.makedirs(os.path.join(VERIF, "evidence"), exist_ok=True)
    with open(os.path.join(VERIF, "evidence", report.prop + ".json"), "w") as f:
        json.dump(ev, f, indent=1, default=str)
    for v, k in knownhits:
        print("KNOWN-FINDING: property=%s %s [%s]" % (report.prop, k["what"], k["key"]))
    code = 0
    if real:
        os.makedirs(os.path.join(VERIF, "replay"), exist_ok=True)
        path = os.path.join(VERIF, "replay", "%s.json" % report.prop)
        with open(path, "w") as f:
            json.dump({"property": report.prop, "tier": report.tier,
                       "violations": [v.to_json() for v in real]}, f, indent=1, default=str)
        for v in real:
            print("  rule=%s key=%s\n    %s%s" % (v.rule, v.key, v.msg, ("\n    at %s" % v.where) if v.where else ""))
        print("VIOLATION property=%s replay=%s" % (report.prop, path))
        code = 1
    print("%s %s: %d rules, %d obligations (%d discharged, %d known findings), %d sites, %.1fs -> %s" % (
        report.prop, report.tier, len(report.rules), obligations, discharged, len(knownhits), instances,
        time.time() - report.t0, "FAIL" if code else "ok"))
    return code
