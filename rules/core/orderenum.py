"""Finite evaluation of extracted terms: assignments of small integers / variants to the
uninterpreted atoms of a decision table, used to compare the extracted decision with the
expected one for *every ordering* of the atoms (difference-logic small-model argument,
DESIGN §2.2).  The program is not run: only terms produced by sym.py are evaluated."""
import itertools
from fractions import Fraction
from .sym import concrete_binop, fmt, fmt_cond


class NeedAtom(Exception):
    def __init__(self, atom):
        self.atom = atom


UNINTERPRETED = ("obj", "proj", "call", "discr", "loopvar", "const", "undef", "upd", "ovf", "fnptr", "moved")


def atoms_of(t, acc=None):
    """uninterpreted maximal subterms"""
    if acc is None:
        acc = []
    k = t[0]
    if k in UNINTERPRETED:
        if t not in acc:
            acc.append(t)
        return acc
    if k == "c" or k == "dconst":
        return acc
    if k == "agg":
        for _, v in t[3]:
            atoms_of(v, acc)
    elif k == "closure":
        pass
    elif k == "ptr":
        pass
    elif k == "op":
        atoms_of(t[2], acc)
        atoms_of(t[3], acc)
    elif k in ("un", "cast"):
        atoms_of(t[2], acc)
    elif k == "ite":
        atoms_of(t[1], acc)
        atoms_of(t[2], acc)
        atoms_of(t[3], acc)
    return acc


def cond_atoms(c, acc):
    if c[0] == "truth":
        atoms_of(c[1], acc)
    elif c[0] == "variant":
        key = ("discr", c[1])
        if key not in acc:
            acc.append(key)
    elif c[0] == "inteq":
        atoms_of(c[1], acc)
    return acc


def cmpval(v):
    """evaluated aggregates compare lexicographically (derived PartialOrd, tuples)"""
    if isinstance(v, tuple) and v and v[0] == "aggv":
        return tuple(cmpval(x) for x in v[3])
    return v


def ev(t, asg):
    k = t[0]
    if k == "c":
        return t[1]
    if k == "dconst":
        return t[2]
    if k in UNINTERPRETED:
        if t in asg:
            return asg[t]
        if k == "discr" and t[:2] in asg:
            return asg[t[:2]]
        raise NeedAtom(t)
    if k == "op":
        a = ev(t[2], asg)
        b = ev(t[3], asg)
        a, b = cmpval(a), cmpval(b)
        if isinstance(a, bool) and not isinstance(b, bool) or isinstance(b, bool) and not isinstance(a, bool):
            a, b = int(a), int(b)
        return concrete_binop(t[1], a, b)
    if k == "un":
        a = ev(t[2], asg)
        if t[1] == "Not":
            return (not a) if isinstance(a, bool) else ~a
        if t[1] == "Neg":
            return -a
        if t[1] == "nz_get":
            return a
        raise NeedAtom(t)
    if k == "cast":
        a = ev(t[2], asg)
        ty = t[1]
        if isinstance(a, bool):
            a = int(a)
        if ty in ("u8", "u16", "u32") and isinstance(a, int):
            bits = int(ty[1:])
            return a & ((1 << bits) - 1)
        if ty in ("f64", "f32") and isinstance(a, int):
            return Fraction(a)
        return a
    if k == "ite":
        return ev(t[2], asg) if ev(t[1], asg) else ev(t[3], asg)
    if k == "agg":
        return ("aggv", t[1], t[2], tuple(ev(v, asg) for _, v in t[3]))
    if k == "ptr":
        return t
    raise NeedAtom(t)


def holds(c, asg):
    if c[0] == "truth":
        return bool(ev(c[1], asg)) == c[2]
    if c[0] == "variant":
        key = ("discr", c[1])
        if key not in asg:
            raise NeedAtom(key)
        v = asg[key]
        if c[3]:
            return v == c[2]
        return v not in c[2]
    if c[0] == "inteq":
        v = ev(c[1], asg)
        if c[3]:
            return v == c[2]
        return v not in c[2]
    raise ValueError(c)


def row_matches(row, asg):
    return all(holds(c, asg) for c in row.cond)


def select_rows(rows, asg):
    return [r for r in rows if row_matches(r, asg)]


def grid(domains):
    """domains: list of (atom, iterable of values) -> iterator of dict assignments"""
    keys = [a for a, _ in domains]
    for vals in itertools.product(*[list(d) for _, d in domains]):
        yield dict(zip(keys, vals))


def small_model_bound(n_atoms, constants=(0, 1)):
    """K for difference-logic terms over n atoms with offsets drawn from `constants`"""
    return n_atoms + sum(abs(c) for c in constants) + 1
