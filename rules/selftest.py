"""Rule liveness self-test: each mutant is a small edit applied to a scratch copy of /repo
(outside /repo and /verif, removed at once); the property's rules must fire with the
expected key on the mutant.  `python3 -m rules.selftest C14 [-j N]`  or  --patch FILE PROP.
Mutants whose edit no longer applies to the current tree are reported as skipped."""
import json, os, shutil, subprocess, sys, tempfile, glob
from concurrent.futures import ProcessPoolExecutor

from . import main as mainmod
from .core import report as rep

VERIF = rep.VERIF
REPO = os.environ.get("VERIF_REPO", "/repo")


def scratch_copy():
    d = tempfile.mkdtemp(prefix="chitchat-mutant-")
    for name in ("Cargo.toml", "Cargo.lock", "chitchat", "chitchat-test", "rustfmt.toml"):
        src = os.path.join(REPO, name)
        if os.path.isdir(src):
            shutil.copytree(src, os.path.join(d, name), ignore=shutil.ignore_patterns("target"))
        elif os.path.exists(src):
            shutil.copy(src, os.path.join(d, name))
    return d


def apply_edit(root, m):
    edits = m.get("edits") or [m]
    for ed in edits:
        p = os.path.join(root, ed["file"])
        s = open(p).read()
        n = s.count(ed["find"])
        if n != ed.get("count", 1):
            return False
        s = s.replace(ed["find"], ed["replace"])
        open(p, "w").write(s)
    return True


def load_facts(root):
    """facts of a scratch copy, to be shared by several properties"""
    return {"default": mainmod.load_config("default", None, rep.Report("-", "quick"), repo=root)}


def run_on(root, prop, facts=None):
    report, mod = mainmod.run_property(prop, "quick", repo=root, quiet=True, facts_by_cfg=facts)
    known = {k["key"] for k in rep.load_known() if k["property"] == prop and k["status"] == "known"}
    return [v for v in report.violations if v.key not in known]


def run_mutant(m):
    root = scratch_copy()
    try:
        if "patch" in m:
            if not os.path.isabs(m["patch"]):
                m = dict(m, patch=os.path.join(VERIF, m["patch"]))
            r = subprocess.run(["git", "apply", "--unsafe-paths", "--directory", root, m["patch"]], cwd=root,
                               stdout=subprocess.PIPE, stderr=subprocess.STDOUT)
            if r.returncode != 0:
                r = subprocess.run(["patch", "-p1", "-d", root, "-i", m["patch"]], stdout=subprocess.PIPE, stderr=subprocess.STDOUT)
                if r.returncode != 0:
                    return m["id"], "skipped", "patch does not apply: " + r.stdout.decode()[-300:]
        elif not apply_edit(root, m):
            return m["id"], "skipped", "edit does not apply"
        try:
            if m["property"] == "ALL":
                vs = []
                facts = load_facts(root)
                for c in json.load(open(os.path.join(VERIF, "MANIFEST.json")))["checks"]:
                    vs += run_on(root, c["property_id"], facts)
            else:
                vs = run_on(root, m["property"])
        except Exception as e:
            return m["id"], "error", repr(e)[:400]
        keys = [v.key for v in vs]
        exp = m.get("expect")
        if m.get("expect_silent"):
            return m["id"], ("silent-ok" if not keys else "FALSE-ALARM"), keys
        if exp is None:
            return m["id"], ("fired" if keys else "MISSED"), keys
        hit = [k for k in keys if k.startswith(exp) or exp in k]
        return m["id"], ("fired" if hit else ("fired-other" if keys else "MISSED")), keys
    finally:
        shutil.rmtree(root, ignore_errors=True)


def load_mutants(prop=None):
    out = []
    for p in sorted(glob.glob(os.path.join(VERIF, "rules", "mutants", "*.json"))):
        for m in json.load(open(p)):
            if prop is None and m["property"] != "ALL" or m["property"] == prop:
                out.append(m)
    return out


def main(argv):
    jobs = 8
    if "-j" in argv:
        i = argv.index("-j")
        jobs = int(argv[i + 1])
        del argv[i:i + 2]
    if argv[1:2] == ["--patch"]:
        props = argv[3:]
        if props == ["ALL"] or not props:
            props = [c["property_id"] for c in json.load(open(os.path.join(VERIF, "MANIFEST.json")))["checks"]]
        ms = [{"id": "%s@%s" % (os.path.basename(os.path.dirname(os.path.abspath(argv[2]))), p),
               "patch": os.path.abspath(argv[2]), "property": p} for p in props]
    else:
        prop = argv[1] if len(argv) > 1 and argv[1] != "all" else None
        ms = load_mutants(prop)
    res = []
    with ProcessPoolExecutor(max_workers=jobs) as ex:
        for r in ex.map(run_mutant, ms):
            print("%-40s %-12s %s" % (r[0], r[1], r[2] if r[1] != "fired" else (r[2][:2] if isinstance(r[2], list) else r[2])))
            res.append(r)
    bad = [r for r in res if r[1] in ("MISSED", "FALSE-ALARM", "error")]
    print("%d mutants: %d fired, %d silent-ok, %d skipped, %d problems" % (
        len(res), sum(r[1].startswith("fired") for r in res), sum(r[1] == "silent-ok" for r in res),
        sum(r[1] == "skipped" for r in res), len(bad)))
    return 1 if bad else 0


if __name__ == "__main__":
    sys.exit(main(sys.argv))
